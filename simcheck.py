#!/venv/bin/python
"""Launcher.

  simcheck.py Cxx [--tier quick|thorough] [--runs N] [--workers N] [--wall S]
  simcheck.py --replay replays/<file>.json
  simcheck.py selftest determinism [Cxx ...]
  (internal) --worker / --minimise
"""
import argparse
import os
import sys

HERE = os.path.dirname(os.path.abspath(__file__))
if HERE not in sys.path:
    sys.path.insert(0, HERE)

ALL = ["C03", "C04", "C05", "C06", "C07", "C08", "C11", "C12", "C13", "C14", "C15", "C16", "C17", "C18", "C19"]


def main():
    if os.environ.get("PYTHONHASHSEED") is None:
        os.environ["PYTHONHASHSEED"] = "0"
        os.execv(sys.executable, [sys.executable] + sys.argv)
    from sim import runner
    argv = sys.argv[1:]
    if argv and argv[0] == "--worker":
        ap = argparse.ArgumentParser()
        ap.add_argument("--worker", dest="prop")
        ap.add_argument("--tier", default="quick")
        ap.add_argument("--base", type=int, default=0)
        ap.add_argument("--offset", type=int, default=0)
        ap.add_argument("--stride", type=int, default=1)
        ap.add_argument("--count", type=int, default=1)
        ap.add_argument("--wall", type=float, default=60)
        ap.add_argument("--digests", action="store_true")
        return runner.worker_main(ap.parse_args(argv))
    if argv and argv[0] == "--minimise":
        return runner.minimise_main(argv[1])
    if argv and argv[0] == "--replay":
        return runner.replay_main(argv[1])
    if argv and argv[0] == "selftest":
        if argv[1] == "determinism":
            props = argv[2:] or ALL
            return runner.determinism_main(props)
        if argv[1] == "mutants":
            from selftest import sensitivity
            return sensitivity.main(argv[2:])
        print("unknown selftest")
        return 2
    ap = argparse.ArgumentParser()
    ap.add_argument("prop")
    ap.add_argument("--tier", default=os.environ.get("VERIF_TIER", "quick"))
    ap.add_argument("--runs", type=int)
    ap.add_argument("--workers", type=int)
    ap.add_argument("--wall", type=float)
    a = ap.parse_args(argv)
    base = int(os.environ.get("VERIF_SEED", "0") or 0)
    return runner.check_main(a.prop.upper(), a.tier, base, a.runs, a.workers, a.wall)


if __name__ == "__main__":
    try:
        rc = main()
    except SystemExit:
        raise
    except BaseException:
        import traceback
        traceback.print_exc()
        rc = 2
    sys.exit(rc)
