#!/venv/bin/python
"""Signature histogram of a batch (debug aid): tools/sighist.py Cxx [runs] [tier] [base]"""
import sys, os, json, collections
sys.path.insert(0, os.path.dirname(os.path.dirname(os.path.abspath(__file__))))
os.environ.setdefault("PYTHONHASHSEED", "0")
from sim import runner, env
env.ensure_deps()
prop = sys.argv[1]; runs = int(sys.argv[2]) if len(sys.argv) > 2 else 200
tier = sys.argv[3] if len(sys.argv) > 3 else "quick"; base = int(sys.argv[4]) if len(sys.argv) > 4 else 0
procs = runner._spawn_workers(prop, tier, base, runs, 16, 600)
aggs, viols, errors = runner._collect(procs, 900)
print("errors", errors[:2])
h = collections.Counter(); ex = {}
for v in viols:
    for one in v["violations"]:
        h[one["sig"]] += 1
        ex.setdefault(one["sig"], (v["idx"], one["detail"]))
print("runs", sum(a["runs"] for a in aggs), "nontrivial", sum(a["nontrivial"] for a in aggs), "violating runs", len(viols), "sim wall", round(sum(a["sim_wall"] for a in aggs),1))
for s, n in h.most_common():
    print("%5d %s   e.g. idx %d: %s" % (n, s, ex[s][0], str(ex[s][1])[:300].replace("\n", " | ")))
pr = collections.Counter(); fl = collections.Counter()
for a in aggs:
    pr.update(a["probes"]); fl.update(a["faults"])
print("probes", dict(pr)); print("faults", dict(fl))
