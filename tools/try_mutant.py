#!/usr/bin/env python3
"""tools/try_mutant.py <Cxx> <dir with patch.diff+demo.py> [other checks...]
Confirms a seeded defect (applies cleanly, test suite unchanged, demo passes without / fails with the patch)
in a scratch worktree outside /repo and /verif, then runs the quick check(s) against the patched copy."""
import json, os, subprocess, sys, shutil, time

prop = sys.argv[1].upper()
d = os.path.abspath(sys.argv[2])
others = [x.upper() for x in sys.argv[3:]]
wt = "/tmp/wt_try_%d" % os.getpid()
PY = "/venv/bin/python"
res = {"property": prop, "dir": d}


def sh(cmd, **kw):
    return subprocess.run(cmd, shell=True, stdout=subprocess.PIPE, stderr=subprocess.STDOUT, text=True, **kw)


try:
    r = sh("git -C /repo worktree add -q %s HEAD" % wt)
    assert r.returncode == 0, r.stdout
    env = dict(os.environ, PYTHONPATH=wt)
    r = sh("cd %s && timeout 600 %s %s/demo.py" % (wt, PY, d), env=env)
    res["demo_without"] = r.returncode
    r = sh("git -C %s apply %s/patch.diff" % (wt, d))
    res["applies"] = r.returncode == 0
    if not res["applies"]:
        res["apply_error"] = r.stdout[-400:]
    else:
        r = sh("cd %s && timeout 900 %s -m pytest -q -p no:cacheprovider --timeout=900 --continue-on-collection-errors 2>&1 | tail -1" % (wt, PY), env=env)
        res["tests"] = r.stdout.strip()
        r = sh("cd %s && timeout 600 %s %s/demo.py" % (wt, PY, d), env=env)
        res["demo_with"] = r.returncode
        res["demo_with_tail"] = r.stdout[-300:]
        res["checks"] = {}
        for p in [prop] + others:
            t0 = time.time()
            r = sh("cd /verif && timeout 1500 %s simcheck.py %s --tier quick" % (PY, p), env=dict(os.environ, VERIF_REPO=wt, VERIF_NO_EVIDENCE="1", VERIF_REPLAY_DIR="/tmp/mut_replays"))
            lines = [l for l in r.stdout.splitlines() if l.startswith("VIOLATION") or l.startswith("  signature") or "quick:" in l or l.startswith("KNOWN")]
            res["checks"][p] = {"exit": r.returncode, "wall": round(time.time() - t0, 1), "lines": [l[:300] for l in lines][:12]}
finally:
    sh("git -C /repo worktree remove --force %s" % wt)
print(json.dumps(res, indent=1))
