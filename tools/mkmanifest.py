#!/usr/bin/env python3
"""Regenerates /verif/MANIFEST.json from the table below (only checks whose module exists are listed;
every other property goes under not_applicable with its reason)."""
import json
import os

V = os.path.dirname(os.path.dirname(os.path.abspath(__file__)))

NA_PURE = {
    "C01": "Pure function of one input stanza (stateless encoder/decoder/coder layer): no schedule, clock, I/O, fault or "
           "second party for a simulator to control; only input generation could decide it, which is not this technique.",
    "C02": "Differential comparison of two pure codecs over inputs and encoder choice vectors; nothing to schedule or fault. "
           "(The reference codec exists as a double and faces the real coder in every wire-world run, but no claim is made.)",
    "C09": "Per-class pure conversion functions entity<->stanza over generated field values; no state, time, I/O or peer.",
    "C10": "Pure field-mapping functions (attribute objects <-> protobuf bytes) over inputs; no schedule/fault dimension.",
    "C20": "Pure computations (token, percent-encoding, one-shot encryption) compared with independent computations; the "
           "ephemeral key does not affect the equalities; nothing to schedule or fault.",
}

CHECKS = {
    "C03": dict(level="exploration", design="5/C03", technique="deterministic multi-account simulation: seeded conversation scripts, "
                "server delivery-order scheduling, duplicate/corrupt-ciphertext fault injection, history oracle",
                text="Seeded exploration of conversation scripts x server delivery orders x duplicate/corruption faults x clean "
                     "restarts over 2-4 real client stacks against a stanza-level server double; exactly-once/receipt/"
                     "confidentiality oracle over the recorded history, bounded liveness at quiescence. Sampling, not proof.",
                note="Trusted: server double (stanza shapes from entity docstrings), reference codec, python-axolotl/sqlite as "
                     "shipped; actor assumption: one event at a time per account."),
    "C04": dict(level="exploration", design="5/C04", technique="deterministic thread-schedule simulation (baton kernel) with TCP chunking, "
                "connect/disconnect histories and handshake fault injection against a Noise responder double",
                text="Seeded exploration of handshake variant x TCP chunking x thread interleavings (sync points and PEP-669 "
                     "pre-emption) x connect/cut-off/reconnect histories x stanza sequences; oracle: server-side decrypted login "
                     "payload, strict in-order nonce transport, reference-codec tree equality both ways, failure surfaces, no stuck task.",
                note="Trusted: dissononce primitives (shared by client and responder double), reference codec, kernel. "
                     "Switches inside C extensions are not explored."),
    "C05": dict(level="exploration", design="5/C05", technique="simulated network chunker: exhaustive partitions of short streams + seeded "
                "partitions of long ones, incremental frame oracle",
                text="All 2^(L-1) chunk partitions of every stream <=14 bytes from <=3 frames (enumerated inside the first 49 "
                     "cases) plus seeded long streams/partitions biased to header cuts; oracle after every chunk; outgoing framing "
                     "and 2^24 refusal.",
                note="Component-level run of the real layer inside a real YowStack; recording layers are stubs."),
    "C06": dict(level="exploration", design="5/C06", technique="deterministic single-account simulation against a server double: module "
                "selection sweep x interleaved traffic x duplicate deliveries, routing-table oracle",
                text="Seeded streams of outgoing entities and incoming stanzas of every supported kind through the assembled "
                     "protocol stack under all 16 module selections (with/without encryption layers); exactly-1 / exactly-0 oracle "
                     "from a hand-written routing table.",
                note="Trusted: routing table (written down in checks/c06.py from the layer sources), reference equality; stanza shapes from entity docstrings."),
    "C07": dict(level="exploration", design="5/C07", technique="deterministic simulation with injected notifications/calls/pings/"
                "unpresentable messages and duplicate-delivery faults; per-delivery acknowledgement history oracle",
                text="Seeded injection of every notification/call/ping/unsupported-message kind amid other traffic under any module "
                     "selection; per-delivery exactly-one matching ack/receipt/pong at the wire.",
                note="Trusted: server double, acknowledgement table (written down in checks/c07.py)."),
    "C08": dict(level="exploration", design="5/C08", technique="deterministic simulation: outstanding-request histories with reply "
                "reordering/duplication/unknown-id fault injection against a reference registry model",
                text="Seeded histories of up to 6 outstanding requests of every kind and result/error/duplicate/unknown-id/non-reply "
                     "deliveries in any order; sequential reference registry; callbacks counted by wrapping at registration.",
                note="Trusted: reference registry model, server double reply shapes."),
    "C11": dict(level="exploration", design="5/C11", technique="deterministic thread-schedule simulation: 2-4 sender tasks + keep-alive + "
                "asyncore loop under seeded interleavings with line-level pre-emption and short-send faults",
                text="Seeded interleavings (sync points, PY_START and LINE pre-emption) of concurrent senders through the real "
                     "coder/noise/segments/network layers and asyncore dispatcher; oracle: whole frames, nonce order on a strict "
                     "peer, multiset equality of decoded stanzas, at two observation points; 30% of the histories span 2-3 "
                     "connections of the same stack with the senders still sending.",
                note="Trusted: kernel, Noise responder, reference codec. GIL-releasing C calls are atomic in the model."),
    "C12": dict(level="fault_enumeration", design="5/C12", technique="fault injection: every layer x direction x position as failure "
                "site (natural and injected exceptions) inside a deterministic thread simulation; lock-state invariant and follow-up liveness",
                text="Enumerates failure site (each layer of the default stack) x direction x position x follow-up thread; natural "
                     "faults where they exist (incl. a frame exactly at the size limit and a send while no session is ready), "
                     "injected exceptions elsewhere, upward failures also under a receiver that survives them; invariant: no "
                     "layer lock held at quiescence, follow-ups complete, nothing stuck.",
                note="Injected faults are instance-level wrappers raising once; trusted: kernel."),
    "C13": dict(level="fault_enumeration", design="5/C13", technique="crash-point enumeration at every SQL statement/commit boundary of "
                "seeded store-operation histories, reopen and compare with a reference model",
                text="Seeded op sequences over the real LiteAxolotlStore; for every statement/commit boundary of every op: crash "
                     "(rollback + close), reopen, each record in {previous,new} and an existing record never missing; plus "
                     "close/reopen equality (conversations continuing across restarts are exercised by C03).",
                note="Trusted: SQLite atomic commit; process death modelled as rollback of the open transaction."),
    "C14": dict(level="exploration", design="5/C14", technique="deterministic simulation of login/upload/loss/restart/crash histories "
                "with a per-key life-cycle reference model",
                text="Seeded histories of connect/auth/key-count requests/upload result|error|loss/restart/crash/prekey consumption "
                     "against a life-cycle model; oracle over upload stanzas and store contents.",
                note="Trusted: server double, life-cycle model, curve library for signature verification."),
    "C15": dict(level="fault_enumeration", design="5/C15", technique="fault enumeration on a simulated blob channel: every byte flip/"
                "truncation/wrong key/kind, 2x2 interop with an independent cipher",
                text="Lengths 0..64 exhaustively + seeded larger; every single-byte corruption position, every truncation, "
                     "extensions after/before the tag, wrong key/kind; yowsup MediaCipher x independent reference in all four pairings.",
                note="No scheduling dimension (stated in evidence); trusted: `cryptography` primitives, reference implementation."),
    "C16": dict(level="exploration", design="5/C16", technique="deterministic simulation of connection-event histories under virtual time "
                "(real dispatchers over simulated sockets) against a lifecycle reference machine",
                text="Seeded event histories (connect, errors, close, success/failure/stream errors, ping ticks, pongs on time/late/"
                     "never) with both dispatchers and options; reference machine for announcements, socket writes, reconnect and "
                     "keep-alive decisions; bounded liveness.",
                note="Trusted: kernel, SimSocket TCP model, Noise responder."),
    "C17": dict(level="exploration", design="5/C17", technique="deterministic multi-account simulation of reinstall/restart/message "
                "histories with a pin reference model",
                text="Seeded histories over 3 accounts (1:1 and group messages both ways, identity reinstall, the server's "
                     "identity-change notification, restarts, auto-trust on/off and toggled); oracle over stored pins and deliveries.",
                note="Trusted: server double, pin model."),
    "C18": dict(level="exploration", design="5/C18", technique="deterministic simulation of stack shapes with loop-task scheduling of "
                "deferred events + exhaustive flag sweep, propagation reference model",
                text="Seeded stack shapes (depth<=6, groups 1-4) built every offered way, emitter/consumer positions, normal and "
                     "deferred events executed by a scheduled loop task; 32-combination flag sweep; reference propagation model.",
                note="Trusted: reference propagation model written from the statement."),
    "C19": dict(level="fault_enumeration", design="5/C19", technique="crash-point enumeration at every file-syscall boundary of a config "
                "save (simulated file layer), restart and load",
                text="Seeded configs x formats x load paths; fault-free round trip after restart; for every syscall boundary of "
                     "the save: crash, load must equal previous or new.",
                note="Process-death model: data handed to the kernel survives, user-space buffers do not."),
}

ALL = ["C%02d" % i for i in range(1, 21)]


def main():
    checks = []
    na = []
    for p in ALL:
        if p in NA_PURE:
            na.append({"property_id": p, "reason": NA_PURE[p]})
            continue
        c = CHECKS[p]
        if not os.path.exists(os.path.join(V, "checks", p.lower() + ".py")):
            na.append({"property_id": p, "reason": "Applicable (see DESIGN.md section %s) but the check is not built yet; no claim is made." % c["design"]})
            continue
        checks.append({
            "property_id": p,
            "quick_cmd": "timeout 900 /venv/bin/python /verif/simcheck.py %s --tier quick" % p,
            "thorough_cmd": "timeout 3600 /venv/bin/python /verif/simcheck.py %s --tier thorough" % p,
            "evidence_file": "/verif/evidence/%s.json" % p,
            "replay_cmd_template": "/venv/bin/python /verif/simcheck.py --replay {path}",
            "engine": "simkit",
            "level_claimed": {"category": c["level"], "text": c["text"], "design_ref": "DESIGN.md section " + c["design"]},
            "level_note": c["note"],
            "technique": c["technique"],
        })
    m = {
        "version": 1,
        "setup_cmd": "/venv/bin/python -c \"import sys; sys.path.insert(0,'/verif'); from sim import env; env.ensure_deps(); print('deps ok')\"",
        "hooks": {
            "guard": "YOWSUP_VERIF",
            "enable": "No source hooks exist: every seam is a module-level name rebound by the harness at run time "
                      "(sim/seams.py). Checks import /repo's working tree directly (VERIF_REPO overrides).",
            "baseline_off_cmd": "cd /repo && /venv/bin/python -m pytest -ra -q -p no:cacheprovider --timeout=900 --continue-on-collection-errors",
            "source_commits": [],
            "add_only": True,
        },
        "engines": [{"name": "simkit", "path": "/verif/sim", "serves_properties": [c["property_id"] for c in checks],
                     "kind_free_text": "deterministic simulation with fault injection: baton-passing thread scheduler with "
                                       "virtual clock, simulated sockets/select, simulated file and SQLite layers, seeded "
                                       "PRNG substreams, ddmin minimiser, replay files"}],
        "checks": checks,
        "not_applicable": na,
        "notes": "See DESIGN.md. Exit 0 = held (KNOWN-FINDING lines are informational), 1 = VIOLATION, 2 = harness error.",
    }
    with open(os.path.join(V, "MANIFEST.json"), "w") as f:
        json.dump(m, f, indent=1)
    print("MANIFEST: %d checks, %d not_applicable" % (len(checks), len(na)))


if __name__ == "__main__":
    main()
