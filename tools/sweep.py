#!/usr/bin/env python3
"""tools/sweep.py <first base> <last base> [tier] [Cxx ...] — run the checks under many VERIF_SEED bases without touching
evidence/ or replays/ and print every base/check that does not exit 0 (triage aid: a check must stay quiet on the
unchanged tree for every seed base, not only for the default one)."""
import os, subprocess, sys, time, json

HERE = os.path.dirname(os.path.dirname(os.path.abspath(__file__)))
first, last = int(sys.argv[1]), int(sys.argv[2])
tier = sys.argv[3] if len(sys.argv) > 3 and not sys.argv[3].upper().startswith("C") else "quick"
props = [a.upper() for a in sys.argv[3:] if a.upper().startswith("C")] or \
    ["C03", "C04", "C05", "C06", "C07", "C08", "C11", "C12", "C13", "C14", "C15", "C16", "C17", "C18", "C19"]
out = os.environ.get("SWEEP_DIR", "/tmp/sweep")
os.makedirs(out, exist_ok=True)
bad = []
for base in range(first, last + 1):
    for p in props:
        env = dict(os.environ, VERIF_SEED=str(base), VERIF_NO_EVIDENCE="1", VERIF_NO_MINIMISE="1",
                   VERIF_REPLAY_DIR=os.path.join(out, "replays"))
        t0 = time.time()
        r = subprocess.run("cd %s && timeout 3000 /venv/bin/python simcheck.py %s --tier %s" % (HERE, p, tier), shell=True, env=env,
                           stdout=subprocess.PIPE, stderr=subprocess.STDOUT, text=True)
        if r.returncode != 0:
            sigs = [l.strip() for l in r.stdout.splitlines() if "signature" in l or l.startswith("VIOLATION")]
            bad.append((base, p, r.returncode, sigs))
            print("BAD base=%d %s exit=%d %s" % (base, p, r.returncode, " ; ".join(sigs)[:600]))
            with open(os.path.join(out, "%s-%d.log" % (p, base)), "w") as f:
                f.write(r.stdout)
        else:
            print("ok  base=%d %s %.0fs" % (base, p, time.time() - t0))
        sys.stdout.flush()
print("sweep done: %d bad of %d" % (len(bad), (last - first + 1) * len(props)))
