#!/usr/bin/env python3
"""tools/verify_seeded.py [filter] — re-confirm the seeded corpus against /repo's HEAD in a scratch worktree:
every patch applies, its demo passes without and fails with the patch."""
import os, subprocess, sys, json
HERE = os.path.dirname(os.path.dirname(os.path.abspath(__file__)))
filt = sys.argv[1:] 
wt = "/tmp/wt_vs_%d" % os.getpid()
def sh(c, **kw): return subprocess.run(c, shell=True, stdout=subprocess.PIPE, stderr=subprocess.STDOUT, text=True, **kw)
bad = 0
assert sh("git -C /repo worktree add -q --detach %s HEAD" % wt).returncode == 0
try:
    env = dict(os.environ, PYTHONPATH=wt)
    for name in sorted(os.listdir(os.path.join(HERE, "seeded"))):
        if filt and not any(f.lower() in name.lower() for f in filt):
            continue
        d = os.path.join(HERE, "seeded", name)
        if json.load(open(os.path.join(d, "meta.json"))).get("superseded_by"):
            print("%-66s superseded by a later fix" % name[:66])
            continue
        r0 = sh("cd %s && timeout 600 /venv/bin/python %s/demo.py" % (wt, d), env=env)
        a = sh("git -C %s apply %s/patch.diff" % (wt, d))
        r1 = sh("cd %s && timeout 600 /venv/bin/python %s/demo.py" % (wt, d), env=env) if a.returncode == 0 else None
        sh("git -C %s checkout -q -- . && git -C %s clean -fdq" % (wt, wt))
        ok = r0.returncode == 0 and a.returncode == 0 and r1 is not None and r1.returncode != 0
        if not ok:
            bad += 1
        print("%-66s %s" % (name[:66], "ok" if ok else "PROBLEM demo_without=%s applies=%s demo_with=%s" % (
            r0.returncode, a.returncode == 0, r1.returncode if r1 else None)))
        sys.stdout.flush()
finally:
    sh("git -C /repo worktree remove --force %s" % wt)
print("problems:", bad)
sys.exit(1 if bad else 0)
