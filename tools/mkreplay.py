#!/venv/bin/python
"""tools/mkreplay.py Cxx idx [tier] [base]: run one case, write + minimise a replay for its first violation."""
import sys, os
sys.path.insert(0, os.path.dirname(os.path.dirname(os.path.abspath(__file__))))
if os.environ.get("PYTHONHASHSEED") is None:
    os.environ["PYTHONHASHSEED"] = "0"; os.execv(sys.executable, [sys.executable] + sys.argv)
from sim import runner, env
env.bootstrap()
prop = sys.argv[1].upper(); idx = int(sys.argv[2]); tier = sys.argv[3] if len(sys.argv) > 3 else "quick"
base = int(sys.argv[4]) if len(sys.argv) > 4 else 0
chk = runner.load_check(prop); chk.setup()
case = chk.case(idx, tier, base)
res = chk.run(case)
if not res["violations"]:
    print("no violation"); sys.exit(0)
for v in res["violations"]:
    print(v["sig"])
want = os.environ.get("SIG")
vs = [v for v in res["violations"] if not want or want in v["sig"]]
print(runner.write_replay(prop, case, vs[0], minimise=True))
