#!/usr/bin/env python3
"""tools/keep_mutant.py <id> <Cxx> <src dir> <try json> : store a confirmed seeded defect under /verif/seeded/<id>/"""
import json, os, shutil, sys
mid, prop, src, tj = sys.argv[1:5]
t = json.load(open(tj))
assert t["applies"] and t["demo_without"] == 0 and t["demo_with"] != 0 and t["tests"].startswith("79 passed"), t
d = os.path.join("/verif/seeded", mid)
os.makedirs(d, exist_ok=True)
for f in ("patch.diff", "demo.py", "README.txt"):
    shutil.copy(os.path.join(src, f), os.path.join(d, f))
readme = open(os.path.join(src, "README.txt")).read()
meta = {
    "id": mid, "breaks_property": prop, "origin": "independent sub-agent given only the property text and a scratch worktree",
    "needs_to_manifest": readme.strip()[:1500],
    "confirmed": {"applies_cleanly_to_repo_head": True, "existing_suite_with_patch": t["tests"],
                  "demo_exit_without_patch": t["demo_without"], "demo_exit_with_patch": t["demo_with"],
                  "how": "tools/try_mutant.py: fresh git worktree of /repo under /tmp, demo run, git apply, pytest, demo run, "
                         "quick check(s) with VERIF_REPO pointing at the patched worktree, worktree removed"},
    "checks": {p: {"exit": c["exit"], "caught": c["exit"] == 1, "wall_s": c["wall"],
                   "signatures": [l.strip()[11:] for l in c["lines"] if l.strip().startswith("signature")]} for p, c in t["checks"].items()},
}
json.dump(meta, open(os.path.join(d, "meta.json"), "w"), indent=1)
print(mid, {p: c["caught"] for p, c in meta["checks"].items()})
