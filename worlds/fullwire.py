"""W1-full — the complete default stack (network, segments, Noise, coder, logger, Axolotl control,
Axolotl send/receive, all protocol layers, an interface-layer application double) with the real
asyncore or socket dispatcher over SimSocket, the real handshake worker and keep-alive threads,
virtual time, against the Noise responder + a small scripted stanza server.  Shared by C16 and C12."""
import os

from sim import seams, sqlshim
from sim.rng import stream, rbytes
from worlds import wire
from doubles import refcodec as RC
from doubles.refcodec import Node

PHONE = "4915170000001"
JID = PHONE + "@s.whatsapp.net"
_S = {}


def setup_process():
    if _S:
        return
    sqlshim.install()
    wire.setup_process()
    from yowsup.layers import YowLayerEvent
    from yowsup.layers.network import YowNetworkLayer
    from yowsup.layers.auth import YowAuthenticationProtocolLayer
    from yowsup.layers.noise.layer import YowNoiseLayer
    from yowsup.layers.interface import YowInterfaceLayer, ProtocolEntityCallback
    from yowsup.layers.protocol_iq import YowIqProtocolLayer
    from yowsup.stacks import YowStackBuilder
    from yowsup.profile.profile import YowProfile
    from yowsup.config.v1.config import Config
    from yowsup.axolotl.manager import AxolotlManager
    _S.update(locals())

    class App(YowInterfaceLayer):
        world = None

        def __init__(self):
            super(App, self).__init__()
            self.world = App.world

        @ProtocolEntityCallback("message")
        def onMessage(self, e):
            self.world.on_app_entity(e)
            self.toLower(e.ack())

        @ProtocolEntityCallback("receipt")
        def onReceipt(self, e):
            self.world.on_app_entity(e)
            self.toLower(e.ack())

        def receive(self, e):
            if e.getTag() not in ("message", "receipt"):
                self.world.on_app_entity(e)
            super(App, self).receive(e)

        def onEvent(self, ev):
            self.world.on_app_event_pre(self, ev)
            r = super(App, self).onEvent(ev)
            self.world.on_app_event_post(self, ev)
            return r

    _S["App"] = App


def S():
    return _S


class Conn(object):
    """Server-side state of one connection."""

    def __init__(self, w, conn, no):
        from doubles.noise_server import NoiseResponder
        self.w = w
        self.conn = conn
        self.no = no
        self.r = NoiseResponder(w.server_key)
        self.transport = False
        self.dead = False
        self.decoded = []
        self.sent = []
        self.passive = None
        self.hellos = 0
        self.closed_at = None

    def send(self, node):
        if self.dead or not self.transport:
            return
        self.sent.append(node)
        self.r.send_frame(RC.encode(node))
        out = self.r.take_out()
        if out:
            self.w.net.server_send(self.conn, out)

    def close(self, rst=False):
        if not self.dead:
            self.dead = True
            self.closed_at = self.w.k.now
            self.w.net.server_close(self.conn, rst=rst)


class FullWorld(wire.World):
    def __init__(self, seed, sched, netcfg, dispatcher="asyncore", ping=0, reconnect=True, decisions=None,
                 max_time_s=3600):
        super(FullWorld, self).__init__(seed, sched, netcfg, max_time_s=max_time_s, decisions=decisions)
        self.dispatcher = dispatcher
        self.ping = ping
        self.reconnect = reconnect
        self.conns = []
        self.app_entities = []     # (virtual time, tag, entity)
        self.app_events = []       # (virtual time, short name, reason)
        self.done = False

    # ---------------------------------------------------------------- set-up
    def build(self):
        s = _S
        from consonance.structs.keypair import KeyPair as CK
        from consonance.structs.publickey import PublicKey as CPub
        from consonance.structs.privatekey import PrivateKey as CPriv
        from doubles.noise_server import keypair_from_private
        kr = stream(self.seed, "statics")
        self.server_key = keypair_from_private(rbytes(kr, 32))
        cli = keypair_from_private(rbytes(kr, 32))
        conf = s["Config"](phone=PHONE, client_static_keypair=CK(CPub(cli.public.data), CPriv(cli.private.data)),
                           server_static_public=CPub(bytes(self.server_key.public.data)))
        os.makedirs(os.path.join(self.cfg_home, "yowsup", PHONE), exist_ok=True)
        s["AxolotlManager"].COUNT_GEN_PREKEYS = 4
        s["AxolotlManager"].THRESHOLD_REGEN = 2
        s["App"].world = self
        st = s["YowStackBuilder"]().pushDefaultLayers().push(s["App"]).build()
        st.setProfile(s["YowProfile"](PHONE, conf))
        st.setProp(s["YowIqProtocolLayer"].PROP_PING_INTERVAL, self.ping)
        st.setProp(s["YowInterfaceLayer"].PROP_RECONNECT_ON_STREAM_ERR, bool(self.reconnect))
        st.setProp(s["YowNetworkLayer"].PROP_DISPATCHER, s["YowNetworkLayer"].DISPATCHER_SOCKET if self.dispatcher == "socket"
                   else s["YowNetworkLayer"].DISPATCHER_ASYNCORE)
        self.stack = st
        self.netlayer = st.getLayer(0)
        self.noise = st.getLayer(2)
        self.app = st.getLayer(8)
        self.layers = [st.getLayer(i) for i in range(9)]

    # ---------------------------------------------------------------- hooks for subclasses
    def on_app_entity(self, e):
        self.app_entities.append((self.k.now, e.getTag(), e))
        self.k.note("app entity", e.getTag())

    def on_app_event_pre(self, layer, ev):
        short = ev.getName().split(".")[-1]
        self.app_events.append((self.k.now, short, ev.getArg("reason")))
        self.k.note("app event", short, ev.getArg("reason") or "")

    def on_app_event_post(self, layer, ev):
        pass

    def on_accept(self, c):
        pass

    def on_transport(self, c):
        """Default: login succeeds."""
        c.send(self.success_node())

    def on_stanza(self, c, n):
        if n.tag == "iq" and n["xmlns"] == "encrypt" and n["type"] == "set":
            c.send(Node("iq", {"type": "result", "from": "s.whatsapp.net", "id": n["id"]}))
        elif n.tag == "iq" and n["xmlns"] == "w:p":
            self.on_ping(c, n)

    def on_ping(self, c, n):
        c.send(Node("iq", {"type": "result", "from": "s.whatsapp.net", "id": n["id"]}))

    def on_client_close(self, c):
        pass

    def expect_wire_violation(self, c, e):
        return False

    def success_node(self):
        return Node("success", {"t": "1700000000", "props": "4", "location": "atn", "creation": "1500000000"})

    # ---------------------------------------------------------------- tasks
    def t_main(self):
        s = _S
        self.stack.broadcastEvent(s["YowLayerEvent"](s["YowNetworkLayer"].EVENT_STATE_CONNECT))
        self.stack.loop()

    def t_server(self):
        from doubles.noise_server import ProtocolViolation
        net = self.net
        while True:
            ev = net.next_event()
            kind, conn = ev
            if kind == "accept":
                c = Conn(self, conn, len(self.conns))
                conn.user = c
                self.conns.append(c)
                self.k.note("srv accept", c.no)
                # like a real server, the double does not wait for ever for a login to complete
                self.k.call_later(20.0, lambda c=c: (self.k.note("srv gives up on handshake", c.no), c.close())
                                  if not c.transport and not c.dead else None)
                self.on_accept(c)
            elif kind == "data":
                c = conn.user
                if c is None:
                    continue
                data = bytes(conn.c2s.buf)
                del conn.c2s.buf[:]
                if data and not c.dead:
                    stage0 = c.r.stage
                    try:
                        c.r.feed(data)
                    except ProtocolViolation as e:
                        if not self.expect_wire_violation(c, e):
                            self.violate("wire/%s" % _slug(str(e)), "connection %d: %s" % (c.no, e))
                        c.close()
                        continue
                    if stage0 in ("prologue", "hello") and c.r.stage not in ("prologue", "hello"):
                        c.hellos += 1
                    out = c.r.take_out()
                    if out:
                        net.server_send(conn, out)
                    if c.r.stage == "transport" and not c.transport:
                        c.transport = True
                        try:
                            c.passive = bool(c.r.payload().passive)
                        except Exception:
                            pass
                        self.k.note("srv transport", c.no, "passive" if c.passive else "active")
                        self.on_transport(c)
                    while c.r.rx:
                        raw = c.r.rx.pop(0)
                        try:
                            n = RC.decode(raw)
                        except Exception as e:  # noqa
                            self.violate("wire/undecodable-stanza", "connection %d: %r" % (c.no, e))
                            continue
                        c.decoded.append(n)
                        self.k.note("srv rx", c.no, n.tag, n["id"] or "", n["xmlns"] or n["type"] or "")
                        self.on_stanza(c, n)
                if conn.c2s.eof and not c.dead:
                    self.k.note("srv sees client close", c.no)
                    self.on_client_close(c)
                    c.close()

    def wait_until(self, pred, timeout):
        k = self.k
        end = k.now + int(timeout * 1e6)
        while not pred():
            if k.now >= end:
                return False
            k.sleep(0.005)
        return True

    def locks_held(self):
        """Names of layer locks currently held (with their holder)."""
        out = []
        for layer in self.layers:
            subs = getattr(layer, "sublayers", None)
            for l in ([layer] + list(subs or [])):
                lk = getattr(l, "lock", None)
                if lk is not None and getattr(lk, "held", False):
                    out.append((l.__class__.__name__ + ".lock", lk.owner.name if lk.owner else None))
                for extra in ("_flush_lock", "_pingQueueLock"):
                    lk = getattr(l, extra, None)
                    if lk is not None and getattr(lk, "held", False):
                        out.append((l.__class__.__name__ + "." + extra, lk.owner.name if lk.owner else None))
        d = getattr(self.netlayer, "_dispatcher", None)
        lk = getattr(d, "_send_lock", None)
        if lk is not None and getattr(lk, "held", False):
            out.append(("dispatcher._send_lock", lk.owner.name if lk.owner else None))
        return out

    def finish(self):
        r = super(FullWorld, self).finish()
        sqlshim.close_all()
        return r


def _slug(s):
    import re
    out = []
    for ch in s.lower():
        if ch.isalnum():
            out.append(ch)
        elif out and out[-1] != "-":
            out.append("-")
    return re.sub(r"\d+", "n", "".join(out).strip("-"))[:48]
