"""W1 — the wire world: one client stack with its real threads over a simulated TCP connection to
a Noise-responder/stanza server double, all under the baton kernel.

This module holds what C04, C11, C12 and C16 share: per-run set-up/tear-down of kernel, seams and
network; the server task; the stanza generator; and the passive C05 frame oracle on the wire."""
import os

from sim import env, kernel as K_, seams, net as N_
from sim.rng import stream
from doubles import refcodec as RC

_ready = {}


def setup_process(preempt_prefixes=("yowsup.layers", "yowsup.stacks", "consonance", "asyncore")):
    if _ready:
        return
    seams.install_random_seams()
    seams.install_thread_seams()
    N_.install_socket_seams()
    # import everything that will run under the kernel before collecting code objects
    import yowsup.stacks  # noqa
    import yowsup.layers.interface  # noqa
    import consonance.protocol  # noqa
    import consonance.transport  # noqa
    import asyncore  # noqa
    seams.auto_rebind()
    n = K_.setup_preemption(preempt_prefixes)
    _ready["codes"] = n


SCHED_CHOICES = [
    {"policy": "random", "sticky": 0.0, "preempt": "none", "p": 0.0},
    {"policy": "random", "sticky": 0.7, "preempt": "none", "p": 0.0},
    {"policy": "random", "sticky": 0.0, "preempt": "call", "p": 0.02},
    {"policy": "random", "sticky": 0.5, "preempt": "call", "p": 0.2},
    {"policy": "random", "sticky": 0.8, "preempt": "line", "p": 0.02},
    {"policy": "random", "sticky": 0.0, "preempt": "line", "p": 0.002},
    {"policy": "pct", "sticky": 0.0, "preempt": "line", "p": 0.05},
    {"policy": "pct", "sticky": 0.0, "preempt": "call", "p": 0.2},
    {"policy": "random", "sticky": 0.9, "preempt": "line", "p": 0.2},
    {"policy": "demote", "sticky": 0.0, "preempt": "line", "p": 0.01},
    {"policy": "demote", "sticky": 0.0, "preempt": "line", "p": 0.05},
    {"policy": "demote", "sticky": 0.0, "preempt": "call", "p": 0.1},
    # computing costs virtual time: sleeping tasks (application, keep-alive, timers) wake while another task is busy
    {"policy": "random", "sticky": 0.8, "preempt": "none", "p": 0.0, "step_us": 20},
    {"policy": "random", "sticky": 0.0, "preempt": "none", "p": 0.0, "step_us": 100},
    {"policy": "random", "sticky": 0.7, "preempt": "call", "p": 0.05, "step_us": 5},
    {"policy": "demote", "sticky": 0.0, "preempt": "line", "p": 0.01, "step_us": 10},
]


def draw_sched(r):
    return dict(r.choice(SCHED_CHOICES))


def draw_net(r):
    return {
        "lat": r.choice([[0.0001, 0.001], [0.0005, 0.02], [0.01, 0.2], [0.0, 0.0]]),
        "piece": r.choice([[1, 1], [1, 3], [1, 16], [1, 64], [16, 1024], [1, 4096], [4096, 65536]]),
        "recv_cap": r.choice([1, 2, 3, 7, 64, 1024, 1024, 1024]),
        "short_send_p": r.choice([0.0, 0.0, 0.3, 0.8]),
    }


class World(object):
    """One simulated run: kernel + network + scratch profile dir."""

    def __init__(self, seed, sched, netcfg, max_time_s=600, max_steps=600000, decisions=None):
        seams.reset_process_globals()
        seams.reset_streams(seed)
        seams.PadRandom.nxt = None
        self.seed = seed
        self.cfg_home = env.fresh_config_home("w1")
        K_.set_preempt_mode(sched.get("preempt", "none"))
        self.k = K_.install(K_.Kernel(seed, policy=sched.get("policy", "random"), sticky=sched.get("sticky", 0.0),
                                      preempt_p=sched.get("p", 0.0), max_steps=max_steps, step_us=sched.get("step_us", 0),
                                      max_time=int(max_time_s * 1e6), decisions=decisions))
        nr = stream(seed, "net")
        self.net = N_.SimNet(self.k, N_.NetConfig(nr, lat=tuple(netcfg.get("lat", (0.0005, 0.02))),
                                                   piece=tuple(netcfg.get("piece", (1, 4096))),
                                                   recv_cap=netcfg.get("recv_cap", 1024),
                                                   short_send_p=netcfg.get("short_send_p", 0.0)))
        N_.SockShim.net = self.net
        self.violations = []
        self.probes = {}
        self.faults = self.net.faults

    def probe(self, name, n=1):
        self.probes[name] = self.probes.get(name, 0) + n

    def violate(self, sig, detail):
        if not any(v["sig"] == sig for v in self.violations):
            self.violations.append({"sig": sig, "detail": detail})
            self.k.note("VIOLATION", sig)

    def run(self):
        status = self.k.run()
        return status

    def finish(self):
        k = self.k
        blocked = k.blocked_report()
        errors = [(n, repr(e), tb) for (n, e, tb) in k.errors]
        k.shutdown()
        K_.set_preempt_mode("none")
        N_.SockShim.net = None
        return blocked, errors

    def result(self, nontrivial, extra_states=()):
        k = self.k
        return {"violations": self.violations, "nontrivial": bool(nontrivial), "digest": k.digest(),
                "faults": dict(self.faults), "probes": dict(self.probes), "steps": k.steps,
                "vtime": k.now / 1e6, "states": list(extra_states), "trace": list(k.notes),
                "schedule": list(k.trace)}


# ------------------------------------------------------------------------------- stanza generator
_WORDS = None


def _words():
    global _WORDS
    if _WORDS is None:
        _WORDS = [w for w in RC.PRIMARY[3:] + RC.SECONDARY if w and w not in ("xmlstreamstart", "xmlstreamend")]
    return _WORDS


def gen_string(r, value=False):
    c = r.random()
    if c < 0.35:
        return r.choice(_words())
    if c < 0.5 and value:
        n = r.choice([1, 2, 5, 11, 12, 13, 20])
        return "".join(r.choice("0123456789") for _ in range(n))
    if c < 0.6 and value:
        n = r.choice([1, 2, 8, 32, 33])
        return "".join(r.choice("0123456789ABCDEF") for _ in range(n))
    if c < 0.75 and value:
        user = "".join(r.choice("0123456789") for _ in range(r.randint(5, 14)))
        if r.random() < 0.3:
            user += "-" + "".join(r.choice("0123456789") for _ in range(10))
            return user + "@g.us"
        return user + "@" + r.choice(["s.whatsapp.net", "s.whatsapp.net", "c.us", "broadcast"])
    n = r.choice([1, 3, 8, 30, 127, 128, 255, 256, 300])
    if not value:
        n = min(n, 30)
    alphabet = "abcdefghijklmnopqrstuvwxyzABCXYZ0189_-:. \xe9\xfc\xff"
    s = "".join(r.choice(alphabet) for _ in range(n))
    if s.endswith("@") or "@" in s:
        s = s.replace("@", "a")
    return s


def gen_tree(r, depth=0, big=None):
    tag = gen_string(r)
    attrs = {}
    na = r.choice([0, 1, 2, 3, 5]) if depth else r.choice([1, 2, 3, 4, 6])
    for _ in range(na):
        attrs[gen_string(r)] = gen_string(r, True)
    c = r.random()
    if big is not None and depth == 0:
        if big == "data":
            return RC.Node(tag, attrs, None, r.randbytes(r.choice([1 << 20, (1 << 20) + 17, 1500000])))
        if big == "list":
            return RC.Node(tag, attrs, [RC.Node("item", {"id": str(i)}) for i in range(r.choice([256, 300, 700]))])
        if big == "mid":
            return RC.Node(tag, attrs, None, r.randbytes(r.choice([256, 257, 4096, 65536, 70000])))
    if depth >= 3 or c < 0.35:
        return RC.Node(tag, attrs)
    if c < 0.6:
        n = r.choice([0, 1, 2, 16, 100, 255, 256, 1000])
        return RC.Node(tag, attrs, None, r.randbytes(n))
    nch = r.choice([1, 1, 2, 3, 5])
    return RC.Node(tag, attrs, [gen_tree(r, depth + 1) for _ in range(nch)])


def gen_stanza(seed, idx, big=None):
    """Deterministic stanza #idx of a run; carries a unique id attribute so sightings are attributable."""
    r = stream(seed, "stanza/%s" % idx)
    n = gen_tree(r, 0, big)
    n.attrs["id"] = "u%s" % idx
    return n


# ------------------------------------------------------------------------------- passive C05 oracle
class FrameChecker(object):
    """Parses a byte stream into 3-byte-length frames; used on both directions of the wire."""

    def __init__(self):
        self.buf = bytearray()
        self.frames = 0

    def feed(self, data):
        out = []
        self.buf.extend(data)
        while len(self.buf) >= 3:
            n = int.from_bytes(bytes(self.buf[:3]), "big")
            if len(self.buf) < 3 + n:
                break
            out.append(bytes(self.buf[3:3 + n]))
            del self.buf[:3 + n]
            self.frames += 1
        return out
