"""W2 — the conversation world: 1-4 accounts, each running the real protocol stack (real
YowNetworkLayer with a simulated *blocking* dispatcher, real coder, real Axolotl layers, real
protocol layers per module selection, an application double) against the stanza-level server
double, all under the baton kernel.

Every account is a simulated process with ONE thread (the thread that called connect and, like
with the real dispatchers, stays inside the dispatcher until the connection ends, then runs the
deferred events like YowStack.loop).  Application operations are handed to that thread as local
events (callback-style application), so one event at a time runs per account (actor assumption);
which account or the server runs next, and in which order the server processes and delivers queued
stanzas, is decided by the seeded scheduler.  Process-wide globals of yowsup (deferred-event queue,
entity id counter) are swapped on every context switch."""
import os
import shutil

from sim import env, kernel as K_, seams, sqlshim, storage
from sim.kernel import SimCrash, SimShutdown
from sim.sync import SimQueue
from sim.rng import stream
from doubles import refcodec as RC
from doubles.wa_server import Server

_ready = {}
_S = {}


def setup_process():
    if _ready:
        return
    seams.install_random_seams()
    seams.install_thread_seams()
    sqlshim.install()
    from yowsup.layers import YowLayerEvent, YowParallelLayer
    from yowsup.layers.network import YowNetworkLayer
    from yowsup.layers.network.dispatcher.dispatcher import YowConnectionDispatcher
    from yowsup.layers.coder import YowCoderLayer
    from yowsup.layers.auth import YowAuthenticationProtocolLayer
    from yowsup.layers.axolotl import AxolotlSendLayer, AxolotlControlLayer, AxolotlReceivelayer
    from yowsup.layers.axolotl.props import PROP_IDENTITY_AUTOTRUST
    from yowsup.layers.interface import YowInterfaceLayer, ProtocolEntityCallback
    from yowsup.layers.protocol_iq import YowIqProtocolLayer
    from yowsup.stacks import YowStack, YowStackBuilder
    from yowsup.structs.protocolentity import ProtocolEntity
    from yowsup.profile.profile import YowProfile
    from yowsup.config.v1.config import Config
    from yowsup.axolotl.manager import AxolotlManager
    import yowsup.stacks.yowstack as YS
    import yowsup.layers.protocol_media  # noqa
    import yowsup.layers.protocol_groups  # noqa
    seams.auto_rebind()
    _S.update(locals())

    class SimDispatcher(YowConnectionDispatcher):
        """Blocking dispatcher: like both real ones, connect() returns when the connection has ended."""

        def __init__(self, callbacks, client):
            super(SimDispatcher, self).__init__(callbacks)
            self.client = client
            self.cid = None

        def connect(self, host):
            c = self.client
            w = c.world
            self.connectionCallbacks.onConnecting()
            self.cid = w.server.connect(c.jid)
            c.cid = self.cid
            c.conn_count += 1
            w.note("connect", c.name, self.cid)
            w.kick_server()
            self.connectionCallbacks.onConnected()
            mycid = self.cid
            while self.cid == mycid:
                item = c.inbox.get()
                if c.dead:
                    raise SimCrash("dead")
                c.busy = True
                try:
                    kind = item[0]
                    if kind == "data":
                        if item[1] == mycid:
                            if len(item) > 3:
                                w.handed_to_stack.add((mycid,) + item[3])
                            try:
                                self.connectionCallbacks.onRecvData(item[2])
                            except (SimCrash, SimShutdown):
                                raise
                            except Exception as e:  # noqa
                                # both real dispatchers catch an exception of the receive path, close the
                                # connection and announce it down
                                import traceback
                                w.on_receive_exception(c, e, traceback.format_exc())
                                if self.cid == mycid:
                                    self.disconnect()
                    elif kind == "op":
                        c.run_op(item[1])
                    elif kind == "close":
                        if item[1] == mycid and self.cid == mycid:
                            self.cid = None
                            c.cid = None
                            self.connectionCallbacks.onDisconnected()
                finally:
                    c.busy = False

        def disconnect(self):
            if self.cid is not None:
                cid, self.cid = self.cid, None
                c = self.client
                c.world.server.disconnect(cid)
                c.world.note("client-disconnect", c.name, cid)
                if c.cid == cid:
                    c.cid = None
                self.connectionCallbacks.onDisconnected()

        def sendData(self, data):
            self.client.on_wire_out(self.cid, bytes(data))

    class App(YowInterfaceLayer):
        client = None

        def __init__(self):
            super(App, self).__init__()
            self.client = App.client

        @ProtocolEntityCallback("message")
        def onMessage(self, e):
            self.client.world.on_app_message(self.client, e)
            self.toLower(e.ack())

        @ProtocolEntityCallback("receipt")
        def onReceipt(self, e):
            self.client.world.on_app_receipt(self.client, e)
            self.toLower(e.ack())

        def receive(self, e):
            self.client.entities.append((e.getTag(), e.__class__.__name__))
            self.client.world.on_app_entity(self.client, e)
            super(App, self).receive(e)

        def onEvent(self, ev):
            self.client.events.append(ev.getName().split(".")[-1])
            self.client.world.on_app_event(self.client, ev)
            return super(App, self).onEvent(ev)

    _S["SimDispatcher"] = SimDispatcher
    _S["App"] = App
    _ready["ok"] = True


def S():
    return _S


class Client(object):
    def __init__(self, world, name, phone, modules=None, with_axolotl=True, autotrust=False):
        self.world = world
        self.name = name
        self.phone = phone
        self.jid = phone + "@s.whatsapp.net"
        self.modules = modules or {"groups": True, "media": True, "privacy": True, "profiles": True}
        self.with_axolotl = with_axolotl
        self.autotrust = autotrust
        self.cid = None
        self.conn_count = 0
        self.stack = None
        self.app = None
        self.dq = SimQueue()
        self.inbox = SimQueue()
        self.idgen = 0
        self.epoch = 0
        self.alive = False
        self.dead = False
        self.busy = False
        self.task = None
        self.entities = []
        self.events = []
        self.wire_out = []
        self.crash_plan = None

    # ---------------------------------------------------------------- life cycle
    def build(self):
        s = _S
        s["App"].client = self
        layers = (s["YowNetworkLayer"], s["YowCoderLayer"])
        if self.with_axolotl:
            layers += (s["AxolotlControlLayer"], s["YowParallelLayer"]((s["AxolotlSendLayer"], s["AxolotlReceivelayer"])))
        layers += (s["YowParallelLayer"](s["YowStackBuilder"].getProtocolLayers(**self.modules)), s["App"])
        st = s["YowStack"](layers, reversed=False)
        st.setProfile(s["YowProfile"](self.phone, s["Config"](phone=self.phone)))
        st.setProp(s["YowIqProtocolLayer"].PROP_PING_INTERVAL, 0)
        st.setProp(s["PROP_IDENTITY_AUTOTRUST"], self.autotrust)
        net = st.getLayer(0)
        client = self
        # the callbacks object the layer hands to a dispatcher (per connection where the library has that, else the layer)
        net._YowNetworkLayer__create_dispatcher = lambda t: s["SimDispatcher"](getattr(net, "_callbacks", None) or net, client)
        self.stack = st
        self.net = net
        self.app = st.getLayer(len(layers) - 1)

    def start(self):
        """Spawn the process' thread: build, connect (blocks while connected), then run deferred events."""
        self.alive = True
        self.dead = False
        self.dq = SimQueue()
        self.inbox = SimQueue()
        self.idgen = 0
        w = self.world
        k = w.k
        me = self
        epoch = self.epoch

        def main():
            s = _S
            try:
                me.build()
                me.stack.broadcastEvent(s["YowLayerEvent"](s["YowNetworkLayer"].EVENT_STATE_CONNECT))
                while me.epoch == epoch and not me.dead:
                    # what YowStack.loop() does, plus local events while no connection is up
                    if me.dq.qsize():
                        cb = me.dq.get(False)
                        me.busy = True
                        try:
                            cb()
                        finally:
                            me.busy = False
                        continue
                    item = me.inbox.get()
                    if item[0] == "op":
                        me.busy = True
                        try:
                            me.run_op(item[1])
                        finally:
                            me.busy = False
            except SimCrash:
                me.on_crashed(epoch)
                raise
            except SimShutdown:
                raise
            except BaseException as e:  # noqa
                import traceback
                w.client_error(me, "main thread", e, traceback.format_exc())

        self.task = k.spawn(main, "client-" + self.name, proc=self)

    def on_crashed(self, epoch):
        """The process died at a crash point of its own (not killed by the director)."""
        if self.epoch != epoch or self.dead:
            return
        self.world.note("crashed", self.name)
        if self.cid is not None:
            self.world.server.disconnect(self.cid)
            self.cid = None
        self.alive = False
        self.dead = True
        self.epoch += 1
        self.crash_plan = None
        sqlshim.close_prefix(os.path.join(self.world.home, "yowsup", self.phone))
        self.stack = None
        self.app = None

    def run_op(self, fn):
        import traceback
        try:
            fn()
        except (SimCrash, SimShutdown):
            raise
        except Exception as e:  # noqa
            self.world.client_error(self, "application call", e, traceback.format_exc())

    def post_op(self, fn):
        self.inbox.push(("op", fn))

    def idle(self):
        return (not self.alive) or (not self.busy and self.inbox.qsize() == 0 and self.dq.qsize() == 0
                                    and self.task is not None and self.task.state == K_.W)

    def kill(self):
        """Process death: the thread is killed, the stack dropped; durable files survive."""
        if self.cid is not None:
            self.world.server.disconnect(self.cid)
            self.cid = None
        self.alive = False
        self.dead = True
        self.epoch += 1
        if self.task is not None:
            self.world.k.kill_task(self.task, SimCrash)
        sqlshim.close_prefix(os.path.join(self.world.home, "yowsup", self.phone))
        self.stack = None
        self.app = None

    def wipe(self):
        shutil.rmtree(os.path.join(self.world.home, "yowsup", self.phone), ignore_errors=True)

    # ---------------------------------------------------------------- wire
    def on_wire_out(self, cid, data):
        w = self.world
        try:
            node = RC.decode(data)
        except Exception as e:  # noqa
            w.violate("wire/undecodable", "%s emitted bytes the reference codec cannot decode: %r" % (self.name, e))
            return
        self.wire_out.append(node)
        w.on_client_stanza(self, cid, node, data)
        if cid is not None:
            w.server.receive(cid, node)
            w.kick_server()


class World(object):
    """Kernel + server task + director task; subclasses provide the script and the oracles."""

    PROP = "C00"

    def __init__(self, seed, knobs=None):
        seams.reset_process_globals()
        seams.reset_streams(seed)
        seams.PadRandom.nxt = None
        storage.PLAN = None
        self.seed = seed
        self.knobs = knobs or {}
        self.home = env.fresh_config_home("w2")
        K_.set_preempt_mode("none")
        self.k = K_.install(K_.Kernel(seed, policy=self.knobs.get("policy", "random"), sticky=self.knobs.get("sticky", 0.0),
                                      max_steps=self.knobs.get("max_steps", 400000), max_time=int(3600e6)))
        self.k.on_switch = self._on_switch
        self._cur_proc = None
        self.rng = stream(seed, "server-order")
        self.choices = RC.Choices(stream(seed, "codec"), self.knobs.get("codec_p", 0.0))
        self.server = Server(self)
        self.handed_to_stack = set()   # (cid, tag, id, type) of stanzas a client's dispatcher passed into its stack
        self.server_wait = []
        self.clients = {}
        self.violations = []
        self.probes = {}
        self.faults = {}
        self.handouts = []
        s = _S
        s["AxolotlManager"].COUNT_GEN_PREKEYS = self.knobs.get("prekeys", 8)
        s["AxolotlManager"].THRESHOLD_REGEN = self.knobs.get("threshold", 2)
        s["ProtocolEntity"]._ProtocolEntity__ID_GEN = 0
        self._main_dq = s["YS"].YowStack._YowStack__detachedQueue
        self._main_id = 0

    # ---------------------------------------------------------------- process-global swapping
    def _on_switch(self, task):
        proc = task.proc if task is not None else None
        if proc is self._cur_proc:
            return
        s = _S
        PE = s["ProtocolEntity"]
        cur = self._cur_proc
        if cur is not None:
            cur.idgen = PE._ProtocolEntity__ID_GEN
        else:
            self._main_id = PE._ProtocolEntity__ID_GEN
        if proc is not None:
            PE._ProtocolEntity__ID_GEN = proc.idgen
            s["YS"].YowStack._YowStack__detachedQueue = proc.dq
        else:
            PE._ProtocolEntity__ID_GEN = self._main_id
            s["YS"].YowStack._YowStack__detachedQueue = self._main_dq
        self._cur_proc = proc

    # ---------------------------------------------------------------- utilities
    def note(self, *parts):
        self.k.note(*parts)

    def violate(self, sig, detail):
        sig = "%s/%s" % (self.PROP, sig)
        if not any(v["sig"] == sig for v in self.violations):
            self.violations.append({"sig": sig, "detail": detail})
            self.note("VIOLATION", sig)

    def probe(self, name, n=1):
        self.probes[name] = self.probes.get(name, 0) + n

    def on_fault(self, kind, key, info):
        self.faults[kind] = self.faults.get(kind, 0) + 1
        self.note("fault", kind, key, info)

    def add_client(self, name, phone, **kw):
        c = Client(self, name, phone, **kw)
        self.clients[name] = c
        return c

    def by_jid(self, jid):
        for c in self.clients.values():
            if c.jid == jid:
                return c
        return None

    # ---------------------------------------------------------------- hooks (overridden)
    def on_client_stanza(self, client, cid, node, data):
        pass

    def on_app_message(self, client, e):
        pass

    def on_app_receipt(self, client, e):
        pass

    def on_app_entity(self, client, e):
        pass

    def on_app_event(self, client, ev):
        pass

    def on_prekey_handout(self, owner_jid, kid, kval, to_jid):
        self.handouts.append((owner_jid, kid, kval, to_jid))

    def on_receive_exception(self, client, exc, tb):
        self.client_error(client, "receive path", exc, tb)

    def client_error(self, client, where, exc, tb):
        self.violate("client-exception/%s:%s" % (where, type(exc).__name__),
                     "%s: %s raised inside the stack: %s" % (client.name, where, tb[-900:]))

    def director(self):
        raise NotImplementedError

    # ---------------------------------------------------------------- server task
    def kick_server(self):
        k = self.k
        for t in self.server_wait:
            k.wake(t)
        self.server_wait = []

    def t_server(self):
        k = self.k
        srv = self.server
        while True:
            k.yield_()
            evs = srv.pending()
            if not evs:
                self.server_wait.append(k.cur)
                k.wait("server-idle")
                continue
            mode = self.knobs.get("srv_order", "uniform")
            ev = evs[0] if mode == "fifo" else evs[self.rng.randrange(len(evs))]
            kind, cid = ev
            if kind == "process":
                srv.process_one(cid)
            else:
                node = srv.take_delivery(cid)
                c = self.by_jid(srv.conns[cid]["jid"])
                self.note("deliver", c.name if c else "?", node.tag, node["id"], node["type"])
                if c is not None and c.alive and c.cid == cid:
                    c.inbox.push(("data", cid, RC.encode(node, self.choices), (node.tag, node["id"], node["type"])))

    def server_close(self, client):
        """Server-side close of the client's current connection."""
        cid = client.cid
        if cid is None:
            return
        self.server.disconnect(cid)
        client.inbox.push(("close", cid))

    # ---------------------------------------------------------------- director helpers
    def quiescent(self):
        if self.server.pending():
            return False
        return all(c.idle() for c in self.clients.values())

    def wait_until(self, pred, vtime=30.0, poll=0.001):
        k = self.k
        end = k.now + int(vtime * 1e6)
        while not pred():
            if k.now >= end:
                return False
            k.sleep(poll)
        return True

    def wait_quiescent(self, vtime=60.0):
        # two consecutive observations, a poll apart, so that a wake-up in flight is not mistaken for silence
        def q():
            return self.quiescent()
        if not self.wait_until(q, vtime):
            return False
        self.k.sleep(0.002)
        return self.wait_until(q, vtime)

    def stuck_report(self):
        return "blocked=%s errors=%s pending=%s" % (
            [(b["task"], b["on"]) for b in self.k.blocked_report() if b["task"] not in ("director",)],
            [(n, repr(e)) for (n, e, tb) in self.k.errors][:3], self.server.pending()[:4])

    # ---------------------------------------------------------------- run
    def run(self):
        k = self.k
        k.spawn(self.t_server, "server", daemon=True)

        def d():
            try:
                self.director()
            finally:
                k.finish()

        k.spawn(d, "director")
        status = k.run()
        for (name, e, tb) in k.errors:
            if name in ("director", "server"):
                self.violate("harness-task:%s" % name, tb[-800:])
        return status

    def finish(self):
        k = self.k
        self.steps, self.vtime, self.digest, self.trace = k.steps, k.now / 1e6, k.digest(), list(k.notes)
        for c in self.clients.values():
            c.dead = True
        k.shutdown()
        self._on_switch(None)
        sqlshim.close_all()

    def result(self, nontrivial, states=()):
        return {"violations": self.violations, "nontrivial": bool(nontrivial), "digest": self.digest,
                "faults": dict(self.faults), "probes": dict(self.probes), "steps": self.steps,
                "vtime": self.vtime, "states": list(states), "trace": self.trace}
