"""simcheck.py selftest mutants [--seeded] [--reverts] [filter...]

Sensitivity self-test: breaks the properties on purpose in scratch worktrees of /repo (outside /repo and
/verif, removed right after use) and demands that the quick check of the broken property reports a VIOLATION.

  * seeded/<id>/patch.diff   - the independent seeded defects
  * known_findings.json      - every 'fixed' entry: the fix: commit is reverted (git revert -n) on top of HEAD

Exit 0 if every applicable mutant is caught, 1 otherwise.  Writes selftest/sensitivity_report.json.
Never touches /repo's working tree, evidence/ or replays/."""
import json
import os
import re
import subprocess
import sys
import time

HERE = os.path.dirname(os.path.dirname(os.path.abspath(__file__)))
PY = sys.executable
REPO = "/repo"


def sh(cmd, **kw):
    return subprocess.run(cmd, shell=True, stdout=subprocess.PIPE, stderr=subprocess.STDOUT, text=True, **kw)


def run_check(prop, wt, rdir):
    env = dict(os.environ, VERIF_REPO=wt, VERIF_NO_EVIDENCE="1", VERIF_NO_MINIMISE="1", VERIF_REPLAY_DIR=rdir)
    t0 = time.time()
    r = sh("cd %s && timeout 1500 %s simcheck.py %s --tier quick" % (HERE, PY, prop), env=env)
    sigs = []
    for l in r.stdout.splitlines():
        m = re.match(r"\s+signature[:=]?\s*(\S+)", l)
        if m:
            sigs.append(m.group(1))
    viol = [l for l in r.stdout.splitlines() if l.startswith("VIOLATION")]
    return {"exit": r.returncode, "violation_lines": len(viol), "signatures": sigs[:8], "wall_s": round(time.time() - t0, 1),
            "tail": r.stdout[-300:] if r.returncode not in (0, 1) else ""}


def with_worktree(fn):
    wt = "/tmp/wt_sens_%d" % os.getpid()
    rdir = "/tmp/wt_sens_replays_%d" % os.getpid()
    r = sh("git -C %s worktree add -q --detach %s HEAD" % (REPO, wt))
    if r.returncode:
        return {"error": r.stdout[-300:]}
    try:
        return fn(wt, rdir)
    finally:
        sh("git -C %s worktree remove --force %s" % (REPO, wt))
        sh("rm -rf %s %s" % (wt, rdir))


def main(argv):
    want_seeded = "--reverts" not in argv
    want_reverts = "--seeded" not in argv
    filt = [a for a in argv if not a.startswith("--")]
    jobs = []
    if want_seeded:
        sd = os.path.join(HERE, "seeded")
        for name in sorted(os.listdir(sd)):
            p = os.path.join(sd, name, "patch.diff")
            if os.path.isfile(p):
                meta = json.load(open(os.path.join(sd, name, "meta.json")))
                if meta.get("superseded_by"):
                    continue    # a later fix made the library robust against this change
                props = meta.get("check_with") or [meta.get("breaks_property", name[:3])]
                jobs.append(("seeded", name, props, p))
    if want_reverts:
        kf = json.load(open(os.path.join(HERE, "known_findings.json")))
        for f in kf["findings"]:
            if f.get("status") == "fixed" and f.get("commit") and not f.get("revert_masked_by"):
                jobs.append(("revert", "%s-revert-%s" % (f["id"], f["commit"]), [f["property"]] + list(f.get("also", [])), f["commit"]))
    if filt:
        jobs = [j for j in jobs if any(x.lower() in j[1].lower() for x in filt)]
    report = []
    missed = 0
    for kind, name, props, what in jobs:
        def body(wt, rdir, kind=kind, what=what, props=props):
            if kind == "seeded":
                r = sh("git -C %s apply %s" % (wt, what))
            else:
                r = sh("git -C %s revert -n %s" % (wt, what))
            if r.returncode:
                return {"applies": False, "why": r.stdout[-300:]}
            out = {"applies": True, "checks": {}}
            for p in props:
                out["checks"][p] = run_check(p, wt, rdir)
            return out
        res = with_worktree(body)
        res.update({"kind": kind, "name": name})
        if res.get("applies"):
            first = res["checks"][props[0]]
            res["caught"] = first["exit"] == 1 and first["violation_lines"] > 0
            if not res["caught"]:
                missed += 1
        report.append(res)
        print("%-8s %-62s %s" % (kind, name[:62],
              ("CAUGHT " + ",".join("%s:%s" % (p, c["exit"]) for p, c in res["checks"].items())) if res.get("caught")
              else ("MISSED " + json.dumps(res.get("checks"))[:300]) if res.get("applies") else "not applicable to HEAD: " + res.get("why", res.get("error", ""))[:120].replace("\n", " ")))
        sys.stdout.flush()
    n_app = sum(1 for r in report if r.get("applies"))
    summary = {"mutants": len(report), "applicable": n_app, "caught": sum(1 for r in report if r.get("caught")), "missed": missed,
               "repo_head": sh("git -C %s rev-parse --short HEAD" % REPO).stdout.strip()}
    if not filt and want_seeded and want_reverts:
        with open(os.path.join(HERE, "selftest", "sensitivity_report.json"), "w") as f:
            json.dump({"summary": summary, "results": report}, f, indent=1)
    print("sensitivity: %(caught)d caught / %(applicable)d applicable / %(mutants)d mutants; missed %(missed)d" % summary)
    return 1 if missed else 0
