"""Independent implementation of WhatsApp media encryption (reference for C15).

HKDF-SHA256 (RFC 5869, zero salt) written directly on hmac/hashlib; AES-256-CBC from `cryptography`;
PKCS#7 padding written by hand; 10-byte truncated HMAC-SHA256 over iv || ciphertext."""
import hashlib
import hmac

from cryptography.hazmat.primitives.ciphers import Cipher, algorithms, modes
from cryptography.hazmat.backends import default_backend

INFO = {"image": b"WhatsApp Image Keys", "audio": b"WhatsApp Audio Keys", "video": b"WhatsApp Video Keys",
        "document": b"WhatsApp Document Keys"}


class MediaError(Exception):
    pass


def hkdf(ikm, info, length):
    prk = hmac.new(b"\x00" * 32, ikm, hashlib.sha256).digest()
    out = b""
    t = b""
    i = 1
    while len(out) < length:
        t = hmac.new(prk, t + info + bytes([i]), hashlib.sha256).digest()
        out += t
        i += 1
    return out[:length]


def _keys(media_key, kind):
    d = hkdf(media_key, INFO[kind], 112)
    return d[:16], d[16:48], d[48:80]


def encrypt(plaintext, media_key, kind):
    iv, key, mac_key = _keys(media_key, kind)
    pad = 16 - len(plaintext) % 16
    padded = plaintext + bytes([pad]) * pad
    enc = Cipher(algorithms.AES(key), modes.CBC(iv), backend=default_backend()).encryptor()
    ct = enc.update(padded) + enc.finalize()
    return ct + hmac.new(mac_key, iv + ct, hashlib.sha256).digest()[:10]


def decrypt(blob, media_key, kind):
    iv, key, mac_key = _keys(media_key, kind)
    if len(blob) < 10 + 16:
        raise MediaError("too short")
    ct, tag = blob[:-10], blob[-10:]
    if not hmac.compare_digest(hmac.new(mac_key, iv + ct, hashlib.sha256).digest()[:10], tag):
        raise MediaError("bad mac")
    if len(ct) % 16:
        raise MediaError("bad length")
    dec = Cipher(algorithms.AES(key), modes.CBC(iv), backend=default_backend()).decryptor()
    p = dec.update(ct) + dec.finalize()
    pad = p[-1]
    if pad < 1 or pad > 16 or p[-pad:] != bytes([pad]) * pad:
        raise MediaError("bad padding")
    return p[:-pad]
