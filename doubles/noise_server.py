"""WhatsApp Noise server double (responder side of XX, IK and IK->XXfallback).

Built on dissononce (trusted base, shared with the client); everything WhatsApp-specific —
prologue / edge-routing header parsing, 3-byte length framing, the "no mix_hash without key" quirk
on the decrypt side, strict in-order nonce transport, certificate payload — is written here.
`feed(bytes)` consumes client bytes; bytes for the client accumulate in `out` (a list of segments
already carrying their 3-byte header)."""
import struct

from dissononce.processing.impl.handshakestate import HandshakeState
from dissononce.extras.processing.handshakestate_guarded import GuardedHandshakeState
from dissononce.extras.processing.handshakestate_switchable import SwitchableHandshakeState
from dissononce.processing.handshakepatterns.interactive.IK import IKHandshakePattern
from dissononce.processing.handshakepatterns.interactive.XX import XXHandshakePattern
from dissononce.processing.modifiers.fallback import FallbackPatternModifier
from dissononce.processing.impl.cipherstate import CipherState
from dissononce.cipher.aesgcm import AESGCMCipher
from dissononce.hash.sha256 import SHA256Hash
from dissononce.dh.x25519.x25519 import X25519DH
from dissononce.dh.keypair import KeyPair as DKeyPair
from dissononce.dh.x25519.public import PublicKey as DPublic
from dissononce.dh.private import PrivateKey as DPrivate
from dissononce.exceptions.decrypt import DecryptFailedException
from consonance.dissononce_extras.processing.symmetricstate_wa import WASymmetricState
from consonance.proto import wa20_pb2

PROLOGUE = b"WA\x04\x00"
EDGE = b"ED\x00\x01"


class ProtocolViolation(Exception):
    """The client's byte stream is not what a WhatsApp server would accept."""


class _ServerSymmetricState(WASymmetricState):
    def decrypt_and_hash(self, ciphertext):
        had = self._cipherstate.has_key()
        plaintext = self._cipherstate.decrypt_with_ad(self._h, ciphertext)
        if had:
            self.mix_hash(ciphertext)
        return plaintext


def keypair_from_private(raw32):
    return X25519DH().generate_keypair(DPrivate(raw32))


def frame(b):
    return struct.pack(">I", len(b))[1:] + b


class NoiseResponder(object):
    def __init__(self, static, cert_payload=b"", corrupt_hello=False):
        self.s = static                  # dissononce KeyPair
        self.cert_payload = cert_payload
        self.corrupt_hello = corrupt_hello
        self.buf = bytearray()
        self.stage = "prologue"          # prologue -> hello -> finish -> transport
        self.out = []
        self.variant = None
        self.routing_info = None
        self.client_payload = None       # decrypted ClientPayload bytes
        self.client_static = None
        self.cs_send = None
        self.cs_recv = None
        self.rx = []                     # decrypted client frames (bytes), in order
        self.rx_frames = 0
        self.tx_frames = 0
        self.raw_prefix = bytearray()    # every byte received, for oracles

    # -------------------------------------------------------------- byte stream
    def feed(self, data):
        self.buf.extend(data)
        self.raw_prefix.extend(data[:max(0, 64 - len(self.raw_prefix))])
        if self.stage == "prologue":
            if not self._parse_prologue():
                return
        while len(self.buf) >= 3:
            n = struct.unpack(">I", b"\x00" + bytes(self.buf[:3]))[0]
            if len(self.buf) < 3 + n:
                break
            seg = bytes(self.buf[3:3 + n])
            del self.buf[:3 + n]
            self._segment(seg)

    def _parse_prologue(self):
        b = self.buf
        if len(b) < 4:
            return False
        if bytes(b[:4]) == EDGE:
            if len(b) < 7:
                return False
            n = struct.unpack(">I", b"\x00" + bytes(b[4:7]))[0]
            if len(b) < 7 + n + 4:
                return False
            self.routing_info = bytes(b[7:7 + n])
            rest = bytes(b[7 + n:7 + n + 4])
            if rest != PROLOGUE:
                raise ProtocolViolation("after edge routing info expected WA header, got %r" % rest)
            del b[:7 + n + 4]
        elif bytes(b[:4]) == PROLOGUE:
            del b[:4]
        else:
            raise ProtocolViolation("bad prologue %r" % bytes(b[:4]))
        self.stage = "hello"
        return True

    def _hs(self):
        return SwitchableHandshakeState(GuardedHandshakeState(HandshakeState(
            _ServerSymmetricState(CipherState(AESGCMCipher()), SHA256Hash()), X25519DH())))

    def _send_seg(self, b):
        self.out.append(frame(b))

    def _segment(self, seg):
        if self.stage == "hello":
            self._on_client_hello(seg)
        elif self.stage == "finish":
            self._on_client_finish(seg)
        elif self.stage == "transport":
            try:
                pt = self.cs_recv.decrypt_with_ad(b"", seg)
            except DecryptFailedException:
                raise ProtocolViolation("transport frame %d does not decrypt under nonce %d"
                                        % (self.rx_frames, self.rx_frames))
            self.rx_frames += 1
            self.rx.append(bytes(pt))
        else:
            raise ProtocolViolation("segment in stage %s" % self.stage)

    def _on_client_hello(self, seg):
        m = wa20_pb2.HandshakeMessage()
        try:
            m.ParseFromString(seg)
        except Exception:
            raise ProtocolViolation("client hello does not parse")
        if not m.HasField("client_hello"):
            raise ProtocolViolation("first segment is not a client hello")
        ch = m.client_hello
        self.hs = self._hs()
        if ch.HasField("static"):
            self.hs.initialize(IKHandshakePattern(), False, PROLOGUE, s=self.s)
            pb = bytearray()
            try:
                self.hs.read_message(ch.ephemeral + ch.static + ch.payload, pb)
            except DecryptFailedException:
                self.hs.switch(FallbackPatternModifier().modify(XXHandshakePattern()), False, PROLOGUE, s=self.s)
                self.variant = "XXfallback"
                return self._send_xx_hello()
            self.client_payload = bytes(pb)
            self.client_static = bytes(self.hs.rs.data)
            mb = bytearray()
            cs = self.hs.write_message(b"", mb)
            sh = wa20_pb2.HandshakeMessage()
            sh.server_hello.ephemeral = bytes(mb[:32])
            sh.server_hello.payload = self._maybe_corrupt(bytes(mb[32:]))
            self._send_seg(sh.SerializeToString())
            self.variant = "IK"
            self._transport(cs)
            return
        self.hs.initialize(XXHandshakePattern(), False, PROLOGUE, s=self.s)
        self.hs.read_message(ch.ephemeral, bytearray())
        self.variant = "XX"
        self._send_xx_hello()

    def _maybe_corrupt(self, b):
        if self.corrupt_hello and b:
            b = bytearray(b)
            b[len(b) // 2] ^= 0x5A
            return bytes(b)
        return b

    def _send_xx_hello(self):
        mb = bytearray()
        self.hs.write_message(self.cert_payload, mb)
        sh = wa20_pb2.HandshakeMessage()
        sh.server_hello.ephemeral = bytes(mb[:32])
        sh.server_hello.static = bytes(mb[32:80])
        sh.server_hello.payload = self._maybe_corrupt(bytes(mb[80:]))
        self._send_seg(sh.SerializeToString())
        self.stage = "finish"

    def _on_client_finish(self, seg):
        m = wa20_pb2.HandshakeMessage()
        m.ParseFromString(seg)
        if not m.HasField("client_finish"):
            raise ProtocolViolation("expected client finish")
        cf = m.client_finish
        pb = bytearray()
        try:
            cs = self.hs.read_message(cf.static + cf.payload, pb)
        except DecryptFailedException:
            raise ProtocolViolation("client finish does not decrypt")
        self.client_payload = bytes(pb)
        self.client_static = bytes(self.hs.rs.data)
        self._transport(cs)

    def _transport(self, cs):
        # responder: cs[0] decrypts initiator->responder, cs[1] encrypts responder->initiator
        self.cs_recv, self.cs_send = cs[0], cs[1]
        self.stage = "transport"

    # -------------------------------------------------------------- transport
    def send_frame(self, plaintext):
        if self.stage != "transport":
            raise RuntimeError("server not in transport")
        self.tx_frames += 1
        self._send_seg(self.cs_send.encrypt_with_ad(b"", plaintext))

    def take_out(self):
        o = b"".join(self.out)
        self.out = []
        return o

    def payload(self):
        cp = wa20_pb2.ClientPayload()
        cp.ParseFromString(self.client_payload)
        return cp
