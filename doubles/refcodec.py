"""Independent implementation of the WhatsApp binary-XML stanza format (reference codec).

Written from the format description, *not* from yowsup's coder; uses a frozen copy of the token
tables taken at the pinned commit (doubles/tokens_frozen.json).  The server double and every oracle
use this codec and this module's strict structural equality — never yowsup's codec and never
ProtocolTreeNode.__eq__ (which only really compares the first child).
"""
import json
import os
import zlib

_T = json.load(open(os.path.join(os.path.dirname(__file__), "tokens_frozen.json")))
PRIMARY = _T["primary"]
SECONDARY = _T["secondary"]
_PIDX = {t: i for i, t in enumerate(PRIMARY) if i >= 3}
_SIDX = {t: i for i, t in enumerate(SECONDARY)}

LIST_EMPTY, LIST_8, LIST_16 = 0, 248, 249
JID_PAIR, HEX_8, BIN_8, BIN_20, BIN_32, NIBBLE_8 = 250, 251, 252, 253, 254, 255
DICT_0 = 236


class Node(object):
    __slots__ = ("tag", "attrs", "children", "data")

    def __init__(self, tag, attrs=None, children=None, data=None):
        self.tag = tag
        self.attrs = dict(attrs or {})
        self.children = list(children or [])
        self.data = data
        if data is not None and not isinstance(data, bytes):
            raise TypeError("data must be bytes")

    def __getitem__(self, k):
        return self.attrs.get(k)

    def child(self, tag):
        for c in self.children:
            if c.tag == tag:
                return c
        return None

    def all(self, tag):
        return [c for c in self.children if c.tag == tag]

    def key(self):
        """Canonical hashable form: strict structural identity (attribute order ignored)."""
        return (self.tag, tuple(sorted(self.attrs.items())), self.data,
                tuple(c.key() for c in self.children))

    def __eq__(self, o):
        return isinstance(o, Node) and self.key() == o.key()

    def __ne__(self, o):
        return not self.__eq__(o)

    def __hash__(self):
        return hash(self.key())

    def short(self, depth=2):
        s = "<%s" % self.tag
        for k, v in self.attrs.items():
            s += " %s=%r" % (k, v if len(str(v)) < 40 else str(v)[:37] + "...")
        if self.data is not None:
            s += " data[%d]" % len(self.data)
        if self.children:
            if depth > 0:
                s += " " + " ".join(c.short(depth - 1) for c in self.children[:6])
                if len(self.children) > 6:
                    s += " +%d" % (len(self.children) - 6)
            else:
                s += " children[%d]" % len(self.children)
        return s + ">"

    __repr__ = short


def from_ptn(n):
    """yowsup ProtocolTreeNode -> Node (reads plain attributes only)."""
    data = n.data
    if data is not None and not isinstance(data, bytes):
        if isinstance(data, str):
            data = data.encode("latin-1")
        else:
            data = bytes(bytearray(data))
    return Node(n.tag, dict(n.attributes or {}), [from_ptn(c) for c in (n.children or [])], data)


def to_ptn(n):
    from yowsup.structs import ProtocolTreeNode
    return ProtocolTreeNode(n.tag, dict(n.attrs), [to_ptn(c) for c in n.children], n.data)


# ------------------------------------------------------------------------------------- encoder
class Choices(object):
    """Encoder choice vector.  rng=None means canonical (smallest) forms everywhere."""

    def __init__(self, rng=None, p=0.0):
        self.rng = rng
        self.p = p
        self.used = {}

    def take(self, name):
        if self.rng is None or self.p <= 0:
            return False
        if self.rng.random() < self.p:
            self.used[name] = self.used.get(name, 0) + 1
            return True
        return False


_NIB = {ord("-"): 10, ord("."): 11}
for _i in range(10):
    _NIB[48 + _i] = _i
_HEX = {}
for _i in range(10):
    _HEX[48 + _i] = _i
for _i in range(6):
    _HEX[65 + _i] = 10 + _i


def _enc_len_bytes(b, out, ch):
    n = len(b)
    if n >= 1 << 20 or (n >= 256 and ch.take("len32")):
        out.append(BIN_32)
        out += n.to_bytes(4, "big")
    elif n >= 256 or ch.take("len20"):
        out.append(BIN_20)
        out += n.to_bytes(3, "big")
    else:
        out.append(BIN_8)
        out.append(n)
    out += b


def _try_pack(b, table, marker, out):
    n = len(b)
    if n == 0 or n > 254:
        return False
    nib = []
    for c in b:
        v = table.get(c)
        if v is None:
            return False
        nib.append(v)
    if n % 2:
        nib.append(15)
    nbytes = len(nib) // 2
    if nbytes > 127:
        return False
    out.append(marker)
    out.append(((n % 2) << 7) | nbytes)
    for i in range(0, len(nib), 2):
        out.append((nib[i] << 4) | nib[i + 1])
    return True


def _enc_string(s, out, ch, pack=False, allow_jid=True):
    if s is None or s == "":
        out.append(0)
        return
    if not ch.take("literal"):
        i = _PIDX.get(s)
        if i is not None:
            out.append(i)
            return
        i = _SIDX.get(s)
        if i is not None:
            out.append(DICT_0 + i // 256)
            out.append(i % 256)
            return
    if allow_jid and "@" in s and not s.endswith("@"):
        at = s.index("@")
        user, server = s[:at], s[at + 1:]
        if at >= 1:
            out.append(JID_PAIR)
            _enc_string(user, out, ch, pack=True, allow_jid=False)
            _enc_string(server, out, ch, allow_jid=False)
            return
    b = s.encode("latin-1")
    if pack and not ch.take("nopack"):
        if _try_pack(b, _NIB, NIBBLE_8, out):
            return
        if _try_pack(b, _HEX, HEX_8, out):
            return
    _enc_len_bytes(b, out, ch)


def _enc_list_start(n, out, ch):
    if n == 0:
        out.append(LIST_EMPTY)
    elif n < 256 and not ch.take("list16"):
        out.append(LIST_8)
        out.append(n)
    else:
        out.append(LIST_16)
        out += n.to_bytes(2, "big")


def _enc_node(n, out, ch):
    size = 1 + 2 * len(n.attrs) + (1 if (n.children or n.data is not None) else 0)
    _enc_list_start(size, out, ch)
    _enc_string(n.tag, out, ch)
    for k, v in n.attrs.items():
        _enc_string(k, out, ch)
        _enc_string(v, out, ch, pack=True)
    if n.data is not None:
        _enc_len_bytes(n.data, out, ch)
    elif n.children:
        _enc_list_start(len(n.children), out, ch)
        for c in n.children:
            _enc_node(c, out, ch)


def encode(node, choices=None, deflate=False):
    """Node -> frame bytes (flag byte + body)."""
    ch = choices or Choices()
    out = bytearray()
    _enc_node(node, out, ch)
    if deflate:
        return b"\x02" + zlib.compress(bytes(out))
    return b"\x00" + bytes(out)


# ------------------------------------------------------------------------------------- decoder
class DecodeError(Exception):
    pass


class _R(object):
    __slots__ = ("b", "i")

    def __init__(self, b):
        self.b = b
        self.i = 0

    def u8(self):
        if self.i >= len(self.b):
            raise DecodeError("eof")
        v = self.b[self.i]
        self.i += 1
        return v

    def take(self, n):
        if self.i + n > len(self.b):
            raise DecodeError("eof")
        v = self.b[self.i:self.i + n]
        self.i += n
        return bytes(v)

    def uint(self, n):
        return int.from_bytes(self.take(n), "big")


def _dec_list_size(tok, r):
    if tok == LIST_EMPTY:
        return 0
    if tok == LIST_8:
        return r.u8()
    if tok == LIST_16:
        return r.uint(2)
    raise DecodeError("bad list token %d" % tok)


def _dec_packed(tok, r):
    h = r.u8()
    odd = h >> 7
    nbytes = h & 0x7F
    raw = r.take(nbytes)
    out = []
    for byte in raw:
        out.append(byte >> 4)
        out.append(byte & 15)
    if odd:
        out.pop()
    s = []
    for v in out:
        if tok == NIBBLE_8:
            if v < 10:
                s.append(48 + v)
            elif v == 10:
                s.append(45)
            elif v == 11:
                s.append(46)
            else:
                raise DecodeError("bad nibble")
        else:
            s.append(48 + v if v < 10 else 55 + v)
    return bytes(s)


def _dec_bytes(tok, r):
    if tok == BIN_8:
        return r.take(r.u8())
    if tok == BIN_20:
        return r.take(r.uint(3) & 0xFFFFF)
    if tok == BIN_32:
        return r.take(r.uint(4) & 0x7FFFFFFF)
    if tok in (HEX_8, NIBBLE_8):
        return _dec_packed(tok, r)
    raise DecodeError("bad bytes token %d" % tok)


def _dec_string(tok, r):
    if tok == 0:
        return None
    if 3 <= tok < DICT_0:
        return PRIMARY[tok]
    if DICT_0 <= tok <= DICT_0 + 3:
        i = (tok - DICT_0) * 256 + r.u8()
        if i >= len(SECONDARY):
            raise DecodeError("bad secondary token")
        return SECONDARY[i]
    if tok == JID_PAIR:
        user = _dec_string(r.u8(), r)
        server = _dec_string(r.u8(), r)
        if server is None:
            raise DecodeError("jid without server")
        return server if user is None else user + "@" + server
    if tok in (BIN_8, BIN_20, BIN_32, HEX_8, NIBBLE_8):
        return _dec_bytes(tok, r).decode("latin-1")
    raise DecodeError("bad string token %d" % tok)


def _dec_node(r):
    size = _dec_list_size(r.u8(), r)
    if size == 0:
        raise DecodeError("empty node")
    tag = _dec_string(r.u8(), r)
    if tag is None:
        raise DecodeError("null tag")
    attrs = {}
    for _ in range((size - 1) // 2):
        k = _dec_string(r.u8(), r)
        v = _dec_string(r.u8(), r)
        attrs[k] = v
    if size % 2 == 1:
        return Node(tag, attrs)
    tok = r.u8()
    if tok in (LIST_EMPTY, LIST_8, LIST_16):
        n = _dec_list_size(tok, r)
        return Node(tag, attrs, [_dec_node(r) for _ in range(n)])
    if tok in (BIN_8, BIN_20, BIN_32, HEX_8, NIBBLE_8):
        return Node(tag, attrs, None, _dec_bytes(tok, r))
    s = _dec_string(tok, r)
    return Node(tag, attrs, None, (s or "").encode("latin-1"))


def decode(frame):
    """frame bytes (flag byte + body) -> Node"""
    frame = bytes(frame)
    if not frame:
        raise DecodeError("empty frame")
    flags = frame[0]
    body = frame[1:]
    if flags & 2:
        body = zlib.decompress(body)
    r = _R(body)
    n = _dec_node(r)
    if r.i != len(body):
        raise DecodeError("trailing bytes")
    return n
