"""Stanza-level WhatsApp server model (double).

Written from the protocol documented in yowsup's entity docstrings/fixtures; uses only the
reference codec's Node.  Per-connection FIFO is TCP's and is kept; which inbox stanza is processed
and which outbox stanza is delivered next is a scheduler decision of the world (worlds/convo.py).

Responsibilities: login success, message acks, 1:1 routing, group fan-out from
<participants><to jid><enc/></to>..</participants> + shared skmsg, receipt and retry-receipt
routing, offline queue, key directory (encrypt set/get with one-time prekey hand-out), group info,
generic iq replies, faults (duplicate delivery, ciphertext corruption)."""
from doubles.refcodec import Node

S_WA = "s.whatsapp.net"


def pb_varint_field_range(buf, start, end, field_no):
    """[lo, hi) byte range (tag and value) of the first varint field field_no in buf[start:end]; (0, 0) if absent."""
    i = start
    try:
        while i < end:
            tag = buf[i]
            if tag & 0x80:
                return 0, 0
            i += 1
            wt, fn = tag & 7, tag >> 3
            if wt == 0:
                lo = i
                while buf[i] & 0x80:
                    i += 1
                i += 1
                if fn == field_no:
                    return lo - 1, i
            elif wt == 2:
                ln = 0
                shift = 0
                while True:
                    b = buf[i]
                    i += 1
                    ln |= (b & 0x7F) << shift
                    shift += 7
                    if not b & 0x80:
                        break
                i += ln
            else:
                return 0, 0
    except IndexError:
        pass
    return 0, 0


def structural_bytes(enc_type, data):
    """Indices of the tag and length bytes of the protobuf fields of a 'msg' / 'pkmsg' ciphertext (for a pkmsg also
    those of the embedded message): the bytes whose damage changes how the rest is parsed."""
    data = bytes(data)
    out = []

    def walk(start, end, depth):
        i = start
        try:
            while i < end:
                tag = data[i]
                if tag & 0x80:
                    return
                out.append(i)
                wt, fn = tag & 7, tag >> 3
                i += 1
                if wt == 0:
                    while data[i] & 0x80:
                        i += 1
                    i += 1
                elif wt == 2:
                    ln = 0
                    shift = 0
                    while True:
                        b = data[i]
                        out.append(i)
                        i += 1
                        ln |= (b & 0x7F) << shift
                        shift += 7
                        if not b & 0x80:
                            break
                    if enc_type == "pkmsg" and depth == 0 and fn == 4 and ln > 10:
                        walk(i + 1, i + ln - 8, 1)    # embedded message: version byte, fields, 8 byte MAC
                    i += ln
                else:
                    return
        except IndexError:
            return
    if enc_type == "msg":
        walk(1, len(data) - 8, 1)
    elif enc_type == "pkmsg":
        walk(1, len(data), 0)
    return [i for i in out if 0 <= i < len(data)]


def whisper_counter_range(enc_type, data):
    """Byte range of the message counter (WhisperMessage field 2) inside a 'msg' or 'pkmsg' ciphertext."""
    data = bytes(data)
    if enc_type == "msg":
        return pb_varint_field_range(data, 1, len(data) - 8, 2)
    if enc_type == "pkmsg":
        lo, hi = pb_field_range(data, 1, 4)
        if hi > lo:
            # skip tag + length of the embedded message, then its version byte
            i = lo + 1
            while data[i] & 0x80:
                i += 1
            i += 1
            return pb_varint_field_range(data, i + 1, hi - 8, 2)
    return 0, 0


def pb_field_range(buf, start, field_no):
    """[lo, hi) byte range (tag, length and payload) of the first occurrence of a length-delimited protobuf
    field inside buf[start:]; (0, 0) if absent or unparsable."""
    i = start
    n = len(buf)

    def varint(i):
        v = 0
        shift = 0
        while i < n:
            b = buf[i]
            i += 1
            v |= (b & 0x7F) << shift
            if not b & 0x80:
                return v, i
            shift += 7
        raise ValueError
    try:
        while i < n:
            t0 = i
            tag, i = varint(i)
            wt = tag & 7
            fn = tag >> 3
            if wt == 0:
                _, i = varint(i)
            elif wt == 2:
                ln, i = varint(i)
                if fn == field_no:
                    return t0, min(n, i + ln)
                i += ln
            elif wt == 5:
                i += 4
            elif wt == 1:
                i += 8
            else:
                return 0, 0
    except ValueError:
        pass
    return 0, 0


class Account(object):
    def __init__(self, jid):
        self.jid = jid
        self.conn = None          # current connection id or None
        self.offline = []         # stanzas waiting for the account to come online
        self.keys = None          # uploaded key material
        self.key_uploads = []     # every encrypt-set stanza seen (for C14)


class Server(object):
    def __init__(self, world):
        self.w = world
        self.accounts = {}
        self.groups = {}          # gjid -> {"creator":..., "participants":[...], "subject":...}
        self.conns = {}           # conn id -> {"jid":..., "inbox":[Node], "outbox":[Node], "open":bool}
        self.next_conn = 1
        self.t = 1700000100
        self.hooks = []           # callables (server, conn_id, node) -> True if handled
        self.stats = {}
        self.dup_plan = {}        # (recipient jid, message id) -> number of extra deliveries
        self.corrupt_plan = {}    # (recipient jid, message id) -> relative byte position (0..1)
        self.corrupted = set()
        self.corrupted_counter = set()   # ... with the changed byte inside the Signal message counter
        self.duplicated = {}
        self.log = []             # (direction, conn id, Node) every stanza seen/sent, in order
        self.hold_key_replies = False
        self.mid = 0
        self.low_mark = 10

    # ---------------------------------------------------------------- connections
    def account(self, jid):
        if jid not in self.accounts:
            self.accounts[jid] = Account(jid)
        return self.accounts[jid]

    def connect(self, jid):
        cid = self.next_conn
        self.next_conn += 1
        self.conns[cid] = {"jid": jid, "inbox": [], "outbox": [], "open": True}
        acc = self.account(jid)
        acc.conn = cid
        self.push(cid, Node("success", {"t": str(self.now()), "props": "4", "location": "atn", "creation": "1500000000"}))
        if acc.offline:
            for n in acc.offline:
                self.push(cid, n)
            acc.offline = []
        return cid

    def disconnect(self, cid, requeue=True):
        c = self.conns.get(cid)
        if not c or not c["open"]:
            return
        c["open"] = False
        acc = self.account(c["jid"])
        if acc.conn == cid:
            acc.conn = None
        if requeue:
            # undelivered stanzas stay with the server (store and forward)
            keep = [n for n in c["outbox"] if n.tag in ("message", "receipt", "notification")]
            acc.offline = keep + acc.offline
        c["outbox"] = []
        c["inbox"] = []

    def now(self):
        self.t += 1
        return self.t

    def stat(self, k, n=1):
        self.stats[k] = self.stats.get(k, 0) + n

    # ---------------------------------------------------------------- queues
    def push(self, cid, node):
        c = self.conns.get(cid)
        if c is None or not c["open"]:
            return
        c["outbox"].append(node)

    def to_jid(self, jid, node):
        acc = self.account(jid)
        if acc.conn is not None and self.conns[acc.conn]["open"]:
            self.push(acc.conn, node)
        else:
            acc.offline.append(node)

    def receive(self, cid, node):
        c = self.conns.get(cid)
        if c is None or not c["open"]:
            return
        c["inbox"].append(node)

    def pending(self):
        """(kind, conn id) choices for the scheduler."""
        out = []
        for cid, c in self.conns.items():
            if not c["open"]:
                continue
            if c["inbox"]:
                out.append(("process", cid))
            if c["outbox"]:
                out.append(("deliver", cid))
        return out

    # ---------------------------------------------------------------- processing
    def process_one(self, cid):
        c = self.conns[cid]
        node = c["inbox"].pop(0)
        self.log.append(("in", cid, node))
        jid = c["jid"]
        for h in self.hooks:
            if h(self, cid, node):
                return
        tag = node.tag
        if tag == "iq":
            self.on_iq(cid, jid, node)
        elif tag == "message":
            self.on_message(cid, jid, node)
        elif tag == "receipt":
            self.on_receipt(cid, jid, node)
        elif tag in ("ack", "presence", "chatstate", "ib", "notification", "call"):
            self.stat("rx_" + tag)
        else:
            self.stat("rx_unknown")

    def take_delivery(self, cid):
        c = self.conns[cid]
        node = c["outbox"].pop(0)
        self.log.append(("out", cid, node))
        return node

    # ---- iq
    def iq_result(self, node, children=None, frm=None):
        return Node("iq", {"type": "result", "from": frm or node["to"] or S_WA, "id": node["id"]}, children)

    def iq_error(self, node, code="404", text="item-not-found", frm=None):
        return Node("iq", {"type": "error", "from": frm or node["to"] or S_WA, "id": node["id"]},
                    [Node("error", {"code": code, "text": text})])

    def on_iq(self, cid, jid, node):
        xmlns = node["xmlns"]
        typ = node["type"]
        if xmlns == "encrypt" and typ == "set":
            acc = self.account(jid)
            acc.key_uploads.append(node)
            d = acc.keys or {"pre": []}
            d["identity"] = node.child("identity").data
            d["registration"] = node.child("registration").data
            d["type"] = node.child("type").data
            sk = node.child("skey")
            d["skey"] = (sk.child("id").data, sk.child("value").data, sk.child("signature").data)
            for k in node.child("list").children:
                kid, kval = k.child("id").data, k.child("value").data
                # a key id uploaded again (its first upload was not confirmed to the client) replaces the stored one; an id
                # that has already been handed out to somebody is used up and is not taken back
                if kid in d.setdefault("handed", set()):
                    continue
                d["pre"] = [x for x in d["pre"] if x[0] != kid]
                d["pre"].append((kid, kval))
            d["asked"] = False
            acc.keys = d
            self.stat("key_upload")
            self.push(cid, self.iq_result(node, frm=S_WA))
        elif xmlns == "encrypt" and typ == "get":
            users = []
            for u in node.child("key").children:
                acc = self.accounts.get(u["jid"])
                if acc is None or acc.keys is None:
                    users.append(Node("user", {"jid": u["jid"]}, [Node("error", {"code": "404", "text": "item-not-found"})]))
                    continue
                d = acc.keys
                ch = [Node("registration", None, None, d["registration"]), Node("type", None, None, d["type"]),
                      Node("identity", None, None, d["identity"]),
                      Node("skey", None, [Node("id", None, None, d["skey"][0]), Node("value", None, None, d["skey"][1]),
                                          Node("signature", None, None, d["skey"][2])])]
                if d["pre"]:
                    kid, kval = d["pre"].pop(0)
                    d.setdefault("handed", set()).add(kid)
                    ch.append(Node("key", None, [Node("id", None, None, kid), Node("value", None, None, kval)]))
                    self.stat("prekey_handed_out")
                    self.w.on_prekey_handout(u["jid"], kid, kval, jid)
                    if len(d["pre"]) < self.low_mark and not d.get("asked"):
                        # running low: ask the owner for more (real servers do this long before running dry)
                        d["asked"] = True
                        self.mid += 1
                        self.to_jid(u["jid"], Node("notification", {"from": S_WA, "id": "enc-%d" % self.mid, "type": "encrypt",
                                                                    "t": str(self.now())},
                                                   [Node("count", {"value": str(len(d["pre"]))})]))
                        self.stat("encrypt_count_notification")
                else:
                    self.stat("bundle_without_onetime_prekey")
                users.append(Node("user", {"jid": u["jid"]}, ch))
            self.stat("key_fetch")
            self.push(cid, self.iq_result(node, [Node("list", None, users)], frm=S_WA))
        elif xmlns == "w:g2" and typ == "get" and node.child("query") is not None:
            g = self.groups.get(node["to"])
            if g is None:
                self.push(cid, self.iq_error(node))
                return
            gid = node["to"].split("@")[0]
            self.push(cid, Node("iq", {"type": "result", "from": node["to"], "id": node["id"]}, [
                Node("group", {"subject": g["subject"], "creation": "1500000000", "creator": g["creator"], "s_t": "1500000001",
                               "s_o": g["creator"], "id": gid},
                     [Node("participant", {"jid": p} if p != g["creator"] else {"jid": p, "type": "admin"}) for p in g["participants"]])]))
            self.stat("group_info")
        elif xmlns == "w:p":
            self.push(cid, self.iq_result(node, frm=S_WA))
        else:
            self.stat("iq_other")
            self.push(cid, self.iq_result(node))

    # ---- messages
    def on_message(self, cid, jid, node):
        to = node["to"]
        self.stat("message_in")
        self.push(cid, Node("ack", {"class": "message", "id": node["id"], "from": to, "t": str(self.now())}))
        base = {"id": node["id"], "type": node["type"], "t": str(self.now()), "notify": jid.split("@")[0]}
        if to is not None and "-" in to.split("@")[0]:
            g = self.groups.get(to)
            if g is None:
                return
            encs = [c for c in node.children if c.tag == "enc"]
            per = {}
            pn = node.child("participants")
            if pn is not None:
                for tn in pn.children:
                    per[tn["jid"]] = [c for c in tn.children if c.tag == "enc"]
            rcpts = [node["participant"]] if node["participant"] else [p for p in g["participants"] if p != jid]
            for r in rcpts:
                ch = list(per.get(r, [])) + encs
                if not ch:
                    continue
                attrs = dict(base)
                attrs["from"] = to
                attrs["participant"] = jid
                self.route_message(r, Node("message", attrs, [Node(c.tag, c.attrs, c.children, c.data) for c in ch]))
        else:
            attrs = dict(base)
            attrs["from"] = jid
            self.route_message(to, Node("message", attrs, [Node(c.tag, c.attrs, c.children, c.data) for c in node.children]))

    def route_message(self, rcpt, node):
        key = (rcpt, node["id"], node["participant"] or node["from"])
        pos = self.corrupt_plan.get(key)
        if pos is not None and key not in self.corrupted:
            encs = [c for c in node.children if c.tag == "enc" and c.data]
            if encs:
                target = encs[int(pos[1] * len(encs)) % len(encs)]
                data = bytearray(target.data)
                # 40 % of the faults land in the structured head of the Signal message (version, ratchet key, counters; for a
                # pkmsg also the outer fields in front of the embedded message), the rest anywhere: the head is a small part of
                # the bytes but holds most of the distinct ways a damaged message can be mis-handled
                head = 45
                if target["type"] == "pkmsg":
                    lo4, hi4 = pb_field_range(bytes(data), 1, 4)
                    head = min(len(data), (lo4 + 48) if hi4 > lo4 else 120)
                elif target["type"] == "skmsg":
                    head = 12
                head = min(head, len(data))
                sb = structural_bytes(target["type"], data) if pos[0] < 0.15 else []
                if sb:
                    i = sb[int(pos[0] / 0.15 * len(sb)) % len(sb)]
                    self.stat("corrupt_structural_byte")
                elif pos[0] < 0.4:
                    i = min(len(data) - 1, int(pos[0] / 0.4 * head))
                else:
                    i = min(len(data) - 1, int((pos[0] - 0.4) / 0.6 * len(data)))
                if target["type"] == "pkmsg":
                    # a changed byte inside the identity-key field of a pkmsg is a changed identity, which the
                    # recipient must refuse (C17) rather than answer with a retry: keep the fault outside that field
                    lo, hi = pb_field_range(bytes(data), 1, 3)
                    if lo <= i < hi:
                        i = hi if hi < len(data) else max(0, lo - 1)
                        self.stat("corrupt_moved_off_identity_field")
                clo, chi = whisper_counter_range(target["type"], data)
                data[i] ^= 0x20 if pos[2] else 0x01
                target.data = bytes(data)
                self.corrupted.add(key)
                if clo <= i < chi:
                    self.corrupted_counter.add(key)
                self.w.on_fault("srv_corrupt_enc", key, {"enc": target["type"], "byte": i, "len": len(data),
                                                         "field": "counter" if clo <= i < chi else ""})
        self.to_jid(rcpt, node)
        extra = self.dup_plan.get(key, 0)
        if extra and key not in self.duplicated:
            self.duplicated[key] = extra
            for _ in range(extra):
                self.to_jid(rcpt, Node(node.tag, node.attrs, [Node(c.tag, c.attrs, c.children, c.data) for c in node.children]))
                self.w.on_fault("srv_dup_message", key, {})

    # ---- receipts
    def on_receipt(self, cid, jid, node):
        to = node["to"]
        self.stat("receipt_in")
        ack_attrs = {"class": "receipt", "id": node["id"], "from": to}
        if node["type"]:
            ack_attrs["type"] = node["type"]
        if node["participant"]:
            ack_attrs["participant"] = node["participant"]
        self.push(cid, Node("ack", ack_attrs))
        attrs = {"id": node["id"], "t": str(self.now())}
        if node["type"]:
            attrs["type"] = node["type"]
        if to is not None and "-" in to.split("@")[0]:
            attrs["from"] = to
            attrs["participant"] = jid
            dest = node["participant"]
        else:
            attrs["from"] = jid
            dest = to
        if dest is None:
            return
        self.to_jid(dest, Node("receipt", attrs, [Node(c.tag, c.attrs, c.children, c.data) for c in node.children]))
