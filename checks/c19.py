"""C19 — account configuration survives serialisation and is saved atomically.

World W4 (profile files): the real ConfigManager / StorageTools / YowProfile.write_config on top of
the simulated file layer (sim/storage.py).  A "process" saves a configuration; the simulator may
kill it before any syscall boundary; a fresh "process" then loads the profile.  Fault-free
configuration: save -> restart -> load through every offered path."""
import base64
import hashlib
import os

from sim import env, storage, seams
from sim.kernel import SimCrash
from sim.rng import stream, rbytes

PROP = "C19"
LEVEL = "fault_enumeration"
RULE = ("case = two generated configurations (old, new; any subset of optional fields, unicode push names, binary ids, "
        "key pairs) + write-chunk size; fault-free part: save->restart->load for {profile JSON existing dir, profile JSON "
        "never-used profile, dest=.json, dest=.yo, dest without extension in both formats, key=value into the profile, two saves into one profile in all four "
        "format orders}; "
        "crash part: EVERY syscall boundary (open/truncate, each write chunk, close, rename, mkdir, fsync) of "
        "YowProfile.write_config(new) over an existing old config is used once as the crash point, followed by a restart "
        "and load; distinct = distinct (old,new,chunk) digests; non-trivial = at least one crash point was exercised")
COMPONENTS = {"real": ["yowsup.config.manager.ConfigManager", "yowsup.config.v1 (Config, ConfigSerialize)",
                       "yowsup.config.transforms.*", "yowsup.common.tools.StorageTools", "yowsup.profile.profile.YowProfile"],
              "stub": ["file layer with syscall-boundary crash points (sim/storage.py) over a real scratch directory",
                       "process restart = new ConfigManager on the surviving files"]}
ASSUMPTIONS = ["six 1.17 shim on sys.path", "crash = process death: data handed to the kernel survives, user-space buffers "
               "do not (no power-loss model)", "key=value format compares scalar values as text (the format has no types)"]
BUDGET = {"quick": (400, 120), "thorough": (40000, 2700)}
FAULTS = ["crash_file_boundary"]
PROBES = ["two_saves_same_profile", "fresh_profile", "keyval_path", "json_path", "noext_path", "crash_after_truncate", "crash_mid_write", "unicode_pushname"]
SHRINK = []
EXHAUSTIVE = {"quick": False, "thorough": False}
_S = {}


def setup():
    seams.install_random_seams()
    import yowsup.common.tools as T
    import yowsup.config.manager as CM
    from yowsup.config.v1.config import Config
    from yowsup.profile.profile import YowProfile
    from consonance.structs.keypair import KeyPair
    from consonance.structs.publickey import PublicKey
    simos = storage.SimOs()
    T.open = storage.sim_open
    T.os = simos
    CM.open = storage.sim_open
    CM.os = simos
    _S.update(T=T, CM=CM, Config=Config, YowProfile=YowProfile, KeyPair=KeyPair, PublicKey=PublicKey)


def total(tier):
    return BUDGET[tier][0]


FIELDS = ["phone", "cc", "login", "pushname", "id", "mcc", "mnc", "sim_mcc", "sim_mnc", "client_static_keypair",
          "server_static_public", "expid", "fdid", "edge_routing_info", "chat_dns_domain"]


def _gen_cfg(r, keyval_safe):
    def text(n):
        if keyval_safe:
            al = "abcdefghijklmnopqrstuvwxyzABC0123456789_-.:/+"
        else:
            al = "abc XYZ0123456789_-.#;=\"\\'\u00e9\u00fc\u4e2d\u2603\U0001F600\n\t"
        s = "".join(r.choice(al) for _ in range(n))
        return s.strip() or "x" if keyval_safe else s

    c = {"phone": "".join(r.choice("0123456789") for _ in range(r.randint(8, 14)))}

    def opt(p=0.5):
        return r.random() < p
    if opt():
        c["cc"] = r.choice([1, 49, 972, "49"])
    if opt(0.3):
        c["login"] = c["phone"]
    if opt():
        c["pushname"] = text(r.choice([1, 5, 20]))
    if opt():
        c["id"] = base64.b64encode(rbytes(r, r.choice([1, 16, 20]))).decode()
    if opt():
        c["mcc"] = r.choice(["000", "262", "310"])
    if opt():
        c["mnc"] = r.choice(["000", "01", "260"])
    if opt(0.3):
        c["sim_mcc"] = r.choice(["000", "262"])
    if opt(0.3):
        c["sim_mnc"] = r.choice(["000", "02"])
    if opt(0.9):
        c["client_static_keypair"] = base64.b64encode(rbytes(r, 64)).decode()
    if opt():
        c["server_static_public"] = base64.b64encode(rbytes(r, 32)).decode()
    if opt():
        c["expid"] = base64.b64encode(rbytes(r, r.choice([1, 16]))).decode()
    if opt():
        c["fdid"] = text(r.choice([8, 36]))
    if opt(0.4):
        c["edge_routing_info"] = base64.b64encode(rbytes(r, r.choice([1, 8, 60]))).decode()
    if opt(0.3):
        c["chat_dns_domain"] = r.choice(["fb", "wa"])
    return c


def case(idx, tier, base):
    seed = base * (1 << 20) + idx
    r = stream(seed, "workload")
    keyval_safe = True
    old = _gen_cfg(r, keyval_safe)
    new = _gen_cfg(r, keyval_safe)
    new["phone"] = old["phone"]
    # JSON-only values (arbitrary unicode) in a separate field set so the keyval paths keep their stated domain
    uni = _gen_cfg(r, False).get("pushname") if r.random() < 0.6 else None
    return {"seed": seed, "old": old, "new": new, "json_pushname": uni, "chunk": r.choice([1, 2, 7, 64, 300, 8192])}


def simplify(case):
    for key in ("old", "new"):
        for f in list(case[key].keys()):
            if f == "phone":
                continue
            c = dict(case)
            c[key] = {k: v for k, v in case[key].items() if k != f}
            yield c
    if case.get("json_pushname"):
        c = dict(case)
        c["json_pushname"] = None
        yield c
    if case["chunk"] != 8192:
        c = dict(case)
        c["chunk"] = 8192
        yield c


def _mk(spec):
    Config, KeyPair, PublicKey = _S["Config"], _S["KeyPair"], _S["PublicKey"]
    kw = dict(spec)
    for k in ("id", "expid", "edge_routing_info"):
        if k in kw:
            kw[k] = base64.b64decode(kw[k])
    if "client_static_keypair" in kw:
        kw["client_static_keypair"] = KeyPair.from_bytes(base64.b64decode(kw["client_static_keypair"]))
    if "server_static_public" in kw:
        kw["server_static_public"] = PublicKey(base64.b64decode(kw["server_static_public"]))
    return Config(**kw)


def _norm(cfg, textual=False):
    """Field dict of a Config with keys as raw bytes."""
    if cfg is None:
        return None
    out = {}
    for f in FIELDS:
        v = getattr(cfg, f)
        if v is None:
            continue
        if f == "client_static_keypair":
            v = ("keypair", bytes(v.private.data), bytes(v.public.data))
        elif f == "server_static_public":
            v = ("public", bytes(v.data))
        elif textual and not isinstance(v, (bytes, tuple)):
            v = str(v)
        out[f] = v
    return out


def _diff(a, b):
    keys = sorted(set(a) | set(b))
    return [(k, a.get(k), b.get(k)) for k in keys if a.get(k) != b.get(k)][:3]


class W(object):
    def __init__(self, case):
        self.case = case
        self.viol = []
        self.probes = {}
        self.faults = {"crash_file_boundary": 0}
        self.n = 0

    def v(self, sig, detail):
        if not any(x["sig"] == sig for x in self.viol):
            self.viol.append({"sig": sig, "detail": detail})

    def probe(self, name, n=1):
        self.probes[name] = self.probes.get(name, 0) + n

    def fresh_home(self):
        self.n += 1
        return env.fresh_config_home("w4-%d" % (self.n % 2))

    def profile_dir(self, home, name):
        return os.path.join(home, "yowsup", name)

    # ------------------------------------------------------------ fault-free configuration
    def roundtrips(self):
        CM = _S["CM"].ConfigManager
        case = self.case
        phone = case["old"]["phone"]
        new = _mk(case["new"])
        jcfg = _mk(dict(case["new"], pushname=case["json_pushname"])) if case.get("json_pushname") else new
        if case.get("json_pushname"):
            self.probe("unicode_pushname")
        storage.PLAN = storage.CrashPlan(None, case["chunk"])
        # 1. profile name, JSON, existing directory
        home = self.fresh_home()
        os.makedirs(self.profile_dir(home, phone))
        self._rt("profile-json-existing", lambda: CM().save(phone, jcfg), lambda: CM().load(phone), jcfg, False)
        # 2. profile name, JSON, profile never used before
        home = self.fresh_home()
        self.probe("fresh_profile")
        self._rt("profile-json-fresh", lambda: CM().save(phone, jcfg), lambda: CM().load(phone), jcfg, False)
        # 3. via YowProfile (what the library itself does when the server key changes)
        home = self.fresh_home()
        os.makedirs(self.profile_dir(home, phone))
        YP = _S["YowProfile"]
        self._rt("yowprofile-write-config", lambda: YP(phone, jcfg).write_config(jcfg), lambda: YP(phone).config, jcfg, False)
        # 4. explicit destinations, both formats, with and without extension
        home = self.fresh_home()
        for label, fname, typ, cfg, textual, pr in (
                ("dest-json", "acc.json", CM.TYPE_JSON, jcfg, False, "json_path"),
                ("dest-yo", "acc.yo", CM.TYPE_KEYVAL, new, True, "keyval_path"),
                ("dest-noext-json", "accj", CM.TYPE_JSON, jcfg, False, "noext_path"),
                ("dest-noext-keyval", "acck", CM.TYPE_KEYVAL, new, True, "noext_path")):
            path = os.path.join(home, fname)
            self.probe(pr)
            self._rt(label, lambda: CM().save(phone, cfg, typ, dest=path), lambda: CM().load(path), cfg, textual)
        # 5. key=value into the profile, loaded by profile name
        home = self.fresh_home()
        os.makedirs(self.profile_dir(home, phone))
        self._rt("profile-keyval", lambda: CM().save(phone, new, CM.TYPE_KEYVAL), lambda: CM().load(phone), new, True)
        # 5b. two saves into the same profile in every order of formats: what is loaded is what was saved last (the
        #     library itself always saves JSON, a tool or an older version may have left key=value behind)
        old_cfg = _mk(case["old"])
        for first, second in ((CM.TYPE_KEYVAL, CM.TYPE_JSON), (CM.TYPE_JSON, CM.TYPE_KEYVAL), (CM.TYPE_KEYVAL, CM.TYPE_KEYVAL),
                              (CM.TYPE_JSON, CM.TYPE_JSON)):
            home = self.fresh_home()
            os.makedirs(self.profile_dir(home, phone))
            name = {CM.TYPE_KEYVAL: "keyval", CM.TYPE_JSON: "json"}
            label = "profile-%s-then-%s" % (name[first], name[second])

            def save2(first=first, second=second):
                CM().save(phone, old_cfg, first)
                CM().save(phone, new, second)
            self.probe("two_saves_same_profile")
            self._rt(label, save2, lambda: CM().load(phone), new, True)
        # 6. files in either format placed in the profile / at a path by other means load correctly
        home = self.fresh_home()
        os.makedirs(self.profile_dir(home, phone))
        txt = CM().config_to_str(new, CM.TYPE_KEYVAL)
        with open(os.path.join(self.profile_dir(home, phone), "config.yo"), "w") as f:
            f.write(txt)
        self._rt("placed-config-yo", lambda: None, lambda: CM().load(phone), new, True)

    def _rt(self, label, save, load, want_cfg, textual):
        try:
            save()
        except SimCrash:
            raise
        except Exception as e:  # noqa
            self.v("C19/roundtrip/%s/save-raises:%s" % (label, type(e).__name__), "save raised %r" % (e,))
            return
        try:
            got = load()
        except Exception as e:  # noqa
            self.v("C19/roundtrip/%s/load-raises:%s" % (label, type(e).__name__), "load after save raised %r" % (e,))
            return
        if got is None:
            self.v("C19/roundtrip/%s/not-found" % label, "load after save found no configuration")
            return
        a, b = _norm(got, textual), _norm(want_cfg, textual)
        if a != b:
            d = _diff(a, b)
            self.v("C19/roundtrip/%s/differs:%s" % (label, d[0][0]), "loaded != saved: %r" % (d,))

    # ------------------------------------------------------------ crash enumeration
    def crashes(self):
        CM = _S["CM"].ConfigManager
        YP = _S["YowProfile"]
        case = self.case
        phone = case["old"]["phone"]
        old, new = _mk(case["old"]), _mk(case["new"])
        n_old, n_new = _norm(old), _norm(new)

        def prepare():
            home = self.fresh_home()
            d = self.profile_dir(home, phone)
            os.makedirs(d)
            storage.PLAN = None
            txt = CM().config_to_str(old)
            with open(os.path.join(d, "config.json"), "w") as f:
                f.write(txt)
            return d

        prepare()
        plan = storage.PLAN = storage.CrashPlan(None, case["chunk"])
        try:
            YP(phone, old).write_config(new)
        except Exception as e:  # noqa
            self.v("C19/save-over-existing-raises:%s" % type(e).__name__, repr(e))
            return
        boundaries = list(plan.log)
        for k in range(1, len(boundaries) + 1):
            prepare()
            plan = storage.PLAN = storage.CrashPlan(k, case["chunk"])
            try:
                YP(phone, old).write_config(new)
                crashed = False
            except SimCrash:
                crashed = True
            if not crashed:
                continue
            self.faults["crash_file_boundary"] += 1
            name = boundaries[k - 1]
            kind = name.split(" ")[0]
            if k >= 2 and boundaries[k - 2].startswith("open-trunc"):
                self.probe("crash_after_truncate")
            if kind == "write" and k >= 2 and boundaries[k - 2].startswith("write"):
                self.probe("crash_mid_write")
            storage.PLAN = None
            where = "crash before boundary %d/%d (%s; after: %s)" % (
                k, len(boundaries), name, boundaries[k - 2] if k >= 2 else "nothing")
            prev_kind = boundaries[k - 2].split(" ")[0] if k >= 2 else "start"
            try:
                got = CM().load(phone)
            except Exception as e:  # noqa
                self.v("C19/crash/unreadable/after-%s" % prev_kind, "%s: profile does not load any more: %r" % (where, e))
                continue
            if got is None:
                self.v("C19/crash/missing/after-%s" % prev_kind, "%s: no configuration found" % where)
                continue
            g = _norm(got)
            if g != n_old and g != n_new:
                lost = "client_static_keypair" in n_old and "client_static_keypair" not in g
                self.v("C19/crash/%s/after-%s" % ("keypair-lost" if lost else "neither-old-nor-new", prev_kind),
                       "%s: loaded config is neither the previous nor the new one: vs old %r" % (where, _diff(g, n_old)))
        storage.PLAN = None


def run(case):
    w = W(case)
    try:
        w.roundtrips()
        w.crashes()
    finally:
        storage.PLAN = None
    h = hashlib.sha256(repr((sorted(case["old"].items()), sorted(case["new"].items()), case["chunk"],
                             case.get("json_pushname"))).encode()).hexdigest()[:16]
    return {"violations": w.viol, "nontrivial": w.faults["crash_file_boundary"] > 0, "digest": h, "faults": w.faults,
            "probes": w.probes, "steps": w.faults["crash_file_boundary"], "vtime": 0.0}
