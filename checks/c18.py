"""C18 — stack assembly and event propagation work for every composition.

World W5: generated stack shapes (depth <= 6, parallel groups of 1-4 recording layers) built every
way the library offers, driven by emitter tasks and `YowStack.loop()` tasks under the baton kernel
with virtual time (deferred events are executed by whichever loop task the scheduler picks; two
stacks of one process share the deferred-event queue).  A reference model of propagation written
from the statement is the oracle.  The 16+32 flag combinations of the default helpers are swept
exhaustively at the start of every batch."""
import hashlib

from sim import kernel as K_, seams
from sim.rng import stream

PROP = "C18"
LEVEL = "exploration"
RULE = ("cases 0..47 = exhaustive sweep of getDefaultLayers (16 flag combinations) and getDefaultStack (32: axolotl x 16, "
        "each with and without an extra top layer); further cases = seeded stack shape (1-6 positions, groups of 1-4) x "
        "build method (classes reversed=False, classes reversed=True, builder push/pop, instances, explicit or implicit "
        "groups) x 3-10 operations (send from top, receive from bottom, emit/broadcast from any position incl. group "
        "members, consumer sets, normal or deferred, interface lookup) x 1-2 stacks per process x loop-task scheduling; "
        "distinct = distinct (shape, build, ops, schedule) digests; non-trivial = the shape has a parallel group or a "
        "deferred event was delivered by a loop task")
COMPONENTS = {"real": ["yowsup.stacks.YowStack / YowStackBuilder", "yowsup.layers.YowLayer / YowParallelLayer / YowLayerEvent",
                       "default layer classes (constructed, not connected) for the helper sweep"],
              "stub": ["recording layers", "threads/clock (baton kernel): loop tasks and emitter tasks", "reference "
                       "propagation model (checks/c18.py: Model)"]}
ASSUMPTIONS = ["six 1.17 shim on sys.path", "not judged (the statement is silent, the library relies on the current "
               "behaviour): whether the siblings of an emitter inside a parallel group and the emitter itself see the "
               "event, and whether group members placed after a consuming member still see it"]
BUDGET = {"quick": (12000, 120), "thorough": (1000000, 1800)}
FAULTS = ["loop_task_delay"]
PROBES = ["deferred_by_loop_task", "deferred_by_other_stacks_loop", "group_shape", "reversed_true", "builder_pop",
          "instances", "implicit_group", "consumer_stops", "interface_in_group"]
SHRINK = ["ops"]
_S = {}


def setup():
    seams.install_random_seams()
    seams.install_thread_seams()
    import yowsup.stacks  # noqa
    seams.auto_rebind()
    from yowsup.layers import YowLayer, YowLayerEvent, YowParallelLayer, YowLayerInterface
    from yowsup.stacks import YowStack, YowStackBuilder
    import yowsup.stacks.yowstack as YS
    _S.update(YowLayer=YowLayer, YowLayerEvent=YowLayerEvent, YowParallelLayer=YowParallelLayer, YowStack=YowStack,
              YowStackBuilder=YowStackBuilder, YowLayerInterface=YowLayerInterface, YS=YS)
    K_.setup_preemption(("yowsup.layers", "yowsup.stacks"))

    class Rec(YowLayer):
        lid = None
        log = None
        consume = ()

        def __init__(self):
            super(Rec, self).__init__()
            self.interface = YowLayerInterface(self)

        def send(self, data):
            self.log.append((self.lid, "send", tuple(data)))
            self.toLower(list(data) + [self.lid])

        def receive(self, data):
            self.log.append((self.lid, "recv", tuple(data)))
            self.toUpper(list(data) + [self.lid])

        def onEvent(self, ev):
            k = K_.K
            who = k.cur.name if k is not None and k.cur is not None else "main"
            self.log.append((self.lid, "event", ev.getName(), who))
            return ev.getName() in self.consume_for

    _S["Rec"] = Rec


def total(tier):
    return BUDGET[tier][0]


def _shape(r):
    depth = r.randint(1, 6)
    shape = []
    nid = 0
    for _ in range(depth):
        if r.random() < 0.35:
            n = r.randint(1, 4)
            shape.append(list(range(nid, nid + n)))
            nid += n
        else:
            shape.append(nid)
            nid += 1
    return shape, nid


def case(idx, tier, base):
    seed = base * (1 << 20) + idx
    if idx < 48:
        if idx < 16:
            return {"seed": seed, "kind": "default_layers", "flags": [bool(idx >> i & 1) for i in range(4)]}
        j = idx - 16
        return {"seed": seed, "kind": "default_stack", "axolotl": bool(j >> 4 & 1), "flags": [bool(j >> i & 1) for i in range(4)],
                "extra": bool((j * 7 + 3) % 2)}
    r = stream(seed, "workload")
    nstacks = 1 if r.random() < 0.7 else 2
    stacks = []
    for s in range(nstacks):
        shape, n = _shape(r)
        stacks.append({"shape": shape, "build": r.choice(["classes", "reversed", "builder", "instances"]),
                       "implicit": r.random() < 0.4, "loop": (s == 0) or r.random() < 0.5})
    ops = []
    evn = 0
    for _ in range(r.randint(3, 10)):
        s = r.randrange(nstacks)
        shape = stacks[s]["shape"]
        ids = [x for item in shape for x in (item if isinstance(item, list) else [item])]
        k = r.choice(["send", "recv", "emit", "emit", "broadcast", "broadcast", "stack_emit", "stack_broadcast", "iface"])
        if k in ("send", "recv", "iface"):
            ops.append({"op": k, "stack": s, "arg": r.choice(ids)})
        else:
            cons = [x for x in ids if r.random() < 0.15]
            ops.append({"op": k, "stack": s, "from": r.choice(ids), "consume": cons, "detached": r.random() < 0.5,
                        "name": "ev%d" % evn})
            evn += 1
        ops[-1]["gap"] = r.choice([0.0, 0.0, 0.05, 0.3])
    sched = {"policy": r.choice(["random", "random", "pct"]), "sticky": r.choice([0.0, 0.5, 0.9]),
             "preempt": r.choice(["none", "call", "line"]), "p": r.choice([0.02, 0.2])}
    return {"seed": seed, "kind": "shape", "stacks": stacks, "ops": ops, "sched": sched}


def repair(case):
    if case.get("kind") != "shape":
        return case
    return case if case.get("ops") else None


def simplify(case):
    if case.get("kind") != "shape":
        return
    if case["sched"].get("preempt") != "none" or case["sched"].get("policy") != "lowest":
        c = dict(case)
        c["sched"] = {"policy": "lowest", "sticky": 0.0, "preempt": "none", "p": 0.0}
        yield c
    for o in range(len(case["ops"])):
        if case["ops"][o].get("consume"):
            c = dict(case)
            c["ops"] = [dict(x) for x in case["ops"]]
            c["ops"][o]["consume"] = []
            yield c
        if case["ops"][o].get("gap"):
            c = dict(case)
            c["ops"] = [dict(x) for x in case["ops"]]
            c["ops"][o]["gap"] = 0.0
            yield c


# ------------------------------------------------------------------------------------ default helpers
def run_defaults(case):
    S = _S
    from yowsup.layers.network import YowNetworkLayer
    from yowsup.layers.noise.layer import YowNoiseLayer
    from yowsup.layers.noise.layer_noise_segments import YowNoiseSegmentsLayer
    from yowsup.layers.coder import YowCoderLayer
    from yowsup.layers.logger import YowLoggerLayer
    from yowsup.layers.axolotl import AxolotlSendLayer, AxolotlControlLayer, AxolotlReceivelayer
    from yowsup.layers.protocol_groups import YowGroupsProtocolLayer
    from yowsup.layers.protocol_media import YowMediaProtocolLayer
    from yowsup.layers.protocol_privacy import YowPrivacyProtocolLayer
    from yowsup.layers.protocol_profiles import YowProfilesProtocolLayer
    import yowsup.stacks.yowstack as YS
    viol = []
    seams.reset_process_globals()
    seams.reset_streams(case["seed"])
    flags = case["flags"]
    kw = dict(groups=flags[0], media=flags[1], privacy=flags[2], profiles=flags[3])
    optional = [c for c, f in zip((YowGroupsProtocolLayer, YowMediaProtocolLayer, YowPrivacyProtocolLayer,
                                   YowProfilesProtocolLayer), flags) if f]
    # the basic module set, written down here (never read from the library's own constant, which a defect may alter)
    basic_names = ["YowAuthenticationProtocolLayer", "YowMessagesProtocolLayer", "YowReceiptProtocolLayer",
                   "YowAckProtocolLayer", "YowPresenceProtocolLayer", "YowIbProtocolLayer", "YowIqProtocolLayer",
                   "YowNotificationsProtocolLayer", "YowContactsIqProtocolLayer", "YowChatstateProtocolLayer",
                   "YowCallsProtocolLayer"]
    want_protocol = sorted(basic_names + [c.__name__ for c in optional])
    transport = [YowNetworkLayer, YowNoiseSegmentsLayer, YowNoiseLayer, YowCoderLayer, YowLoggerLayer]

    def v(sig, detail):
        viol.append({"sig": sig, "detail": "%s: %s" % (kw, detail)})

    def check_layers(items, label):
        def cls_of(x):
            return x if isinstance(x, type) else x.__class__
        classes = [cls_of(x) for x in items]
        if classes[:5] != transport:
            v("C18/defaults/%s/transport" % label, "bottom five layers are %s" % [c.__name__ for c in classes[:5]])
        if AxolotlControlLayer not in classes:
            v("C18/defaults/%s/no-encryption-control" % label, "AxolotlControlLayer missing")
        groups = [x for x in items if cls_of(x) is S["YowParallelLayer"]]
        subs = [sorted(s.__class__.__name__ for s in g.sublayers) for g in groups]
        if sorted([AxolotlSendLayer.__name__, AxolotlReceivelayer.__name__]) not in subs:
            v("C18/defaults/%s/no-encryption-group" % label, "send/receive encryption group missing")
        prot = [s for s in subs if "YowAuthenticationProtocolLayer" in s]
        if len(prot) != 1:
            v("C18/defaults/%s/protocol-group-count" % label, "%d protocol groups" % len(prot))
        elif prot[0] != want_protocol:
            extra = sorted(set(prot[0]) - set(want_protocol)) or [x for x in prot[0] if prot[0].count(x) > 1]
            missing = sorted(set(want_protocol) - set(prot[0]))
            v("C18/defaults/%s/optional-modules" % label, "protocol group has %d layers; extra/duplicated %s missing %s"
              % (len(prot[0]), extra[:4], missing))

    # an application may build several stacks in one process: an earlier call with the complementary selection must
    # not influence this one
    try:
        S["YowStackBuilder"].getDefaultLayers(**{k: not val for k, val in kw.items()})
    except Exception:
        pass
    if case["kind"] == "default_layers":
        try:
            items = S["YowStackBuilder"].getDefaultLayers(**kw)
            check_layers(items, "getDefaultLayers")
            st = S["YowStack"](items, reversed=False)
            got = [st.getLayer(i).__class__ for i in range(len(items))]
            if got[:5] != transport:
                v("C18/defaults/getDefaultLayers/stack-order", "stack built from the tuple has %s at the bottom" % got[:5])
            # builder route must give the same thing for the all-true combination
            if all(flags):
                st2 = S["YowStackBuilder"]().pushDefaultLayers().build()
                got2 = [st2.getLayer(i).__class__ for i in range(len(items))]
                if got2 != got:
                    v("C18/defaults/pushDefaultLayers/differs", "builder route differs from getDefaultLayers()")
        except Exception as e:  # noqa
            v("C18/defaults/getDefaultLayers/raises:%s" % type(e).__name__, repr(e))
    else:
        extra = _S["Rec"] if case.get("extra") else None
        if extra is not None:
            extra = type("Extra", (extra,), {"lid": "extra", "log": [], "consume_for": ()})
        try:
            st = S["YowStackBuilder"].getDefaultStack(layer=extra, axolotl=case["axolotl"], **kw)
            n = 8 + (1 if extra else 0)
            items = []
            for i in range(n):
                items.append(st.getLayer(i))
            check_layers(items, "getDefaultStack")
            if extra is not None and not isinstance(items[-1], extra):
                v("C18/defaults/getDefaultStack/extra-layer-not-on-top", "top is %s" % items[-1].__class__.__name__)
        except Exception as e:  # noqa
            v("C18/defaults/getDefaultStack/raises:%s" % type(e).__name__,
              "getDefaultStack(layer=%s, axolotl=%s, ...) raised %r" % ("<layer>" if extra else None, case["axolotl"], e))
    # two default stacks in one process (built the way the demos build them) are independent objects: no layer instance
    # is shared, and an event in one does not show up in the other
    try:
        tops = []
        stacks = []
        for si in range(2):
            top = type("Top%d" % si, (_S["Rec"],), {"lid": "top%d" % si, "log": [], "consume_for": ()})
            tops.append(top)
            if case["kind"] == "default_layers":
                stacks.append(S["YowStackBuilder"]().pushDefaultLayers().push(top).build())
            else:
                stacks.append(S["YowStackBuilder"].getDefaultStack(layer=top, axolotl=case["axolotl"], **kw))

        def objs(st):
            out = []
            i = 0
            while True:
                try:
                    layer = st.getLayer(i)
                except Exception:
                    break
                if layer is None:
                    break
                out.append(layer)
                out.extend(getattr(layer, "sublayers", None) or [])
                i += 1
                if i > 40:
                    break
            return out
        a, b = objs(stacks[0]), objs(stacks[1])
        shared = [x.__class__.__name__ for x in a if any(x is y for y in b)]
        if shared:
            v("C18/defaults/two-stacks/shared-layer-instances", "two stacks built one after the other share layer objects: %s"
              % shared[:5])
        for st, mine, other in ((stacks[0], tops[0], tops[1]), (stacks[1], tops[1], tops[0])):
            n0, n1 = len(mine.log), len(other.log)
            st.getLayer(0).emitEvent(S["YowLayerEvent"]("org.verif.probe"))
            if len(mine.log) != n0 + 1 or len(other.log) != n1:
                v("C18/defaults/two-stacks/event-crosses-stacks", "an event emitted at the bottom of one stack was seen %d times "
                  "by its own top layer and %d times by the other stack's top layer" % (len(mine.log) - n0, len(other.log) - n1))
    except Exception as e:  # noqa
        if not viol:
            v("C18/defaults/two-stacks/raises:%s" % type(e).__name__, repr(e))
    h = hashlib.sha256(repr(sorted(case.items())).encode()).hexdigest()[:16]
    return {"violations": viol[:2], "nontrivial": True, "digest": h, "faults": {}, "probes": {}, "steps": 1, "vtime": 0.0}


# ------------------------------------------------------------------------------------ reference model
class Model(object):
    """Propagation as the statement describes it. shape: bottom -> top list of id | [ids]."""

    def __init__(self, shape):
        self.shape = shape

    def members(self, i):
        it = self.shape[i]
        return it if isinstance(it, list) else [it]

    def pos_of(self, lid):
        for i in range(len(self.shape)):
            if lid in self.members(i):
                return i
        raise KeyError(lid)

    def send_from_top(self):
        """Expected (lid, 'send', data) calls in DFS order for stack.send([])."""
        out = []

        def down(i, path):
            if i < 0:
                return
            for m in self.members(i):
                out.append((m, "send", tuple(path)))
                down(i - 1, path + [m])
        down(len(self.shape) - 1, [])
        return out

    def recv_from_bottom(self):
        out = []

        def up(i, path):
            if i >= len(self.shape):
                return
            for m in self.members(i):
                out.append((m, "recv", tuple(path)))
                up(i + 1, path + [m])
        up(0, [])
        return out

    def event(self, start_pos, direction, consume, include_start):
        """Judged sightings in order + the set of unjudged layer ids.
        start_pos: position index whose neighbour in `direction` is offered the event first
        (include_start: the position itself is offered it first, for stack.emitEvent/broadcastEvent)."""
        seen = []
        unjudged = set()
        i = start_pos if include_start else start_pos + direction
        first_item = None
        while 0 <= i < len(self.shape):
            if first_item is None:
                first_item = i
            stop = False
            for m in self.members(i):
                if stop:
                    unjudged.add(m)
                    continue
                seen.append(m)
                if m in consume:
                    stop = True
            if stop:
                break
            i += direction
        return seen, unjudged, first_item


# ------------------------------------------------------------------------------------ shape world
def run(case):
    if case["kind"] != "shape":
        return run_defaults(case)
    S = _S
    seams.reset_process_globals()
    seams.reset_streams(case["seed"])
    sched = case["sched"]
    K_.set_preempt_mode(sched.get("preempt", "none"))
    k = K_.install(K_.Kernel(case["seed"], policy=sched.get("policy", "random"), sticky=sched.get("sticky", 0.0),
                             preempt_p=sched.get("p", 0.0), max_steps=200000, max_time=int(120e6)))
    viol = []
    probes = {}

    def v(sig, detail):
        if not any(x["sig"] == sig for x in viol):
            viol.append({"sig": sig, "detail": detail})

    def probe(n):
        probes[n] = probes.get(n, 0) + 1

    worlds = []
    try:
        for si, spec in enumerate(case["stacks"]):
            worlds.append(_build(si, spec, v, probe))
    except Exception as e:  # noqa
        import traceback
        v("C18/build/raises:%s" % type(e).__name__, "building %s raised: %s" % (case["stacks"], traceback.format_exc()[-500:]))
        K_.set_preempt_mode("none")
        K_.K = None
        return {"violations": viol, "nontrivial": False, "digest": "build-failed", "faults": {}, "probes": probes,
                "steps": 0, "vtime": 0.0}
    loops = sum(1 for w in worlds if w["spec"]["loop"])

    def driver():
        for oi, op in enumerate(case["ops"]):
            w = worlds[op["stack"]]
            try:
                _do_op(k, w, op, oi, v, probe, loops, worlds)
            except K_.SimShutdown:
                raise
            except Exception as e:  # noqa
                import traceback
                v("C18/op-raises/%s:%s" % (op["op"], type(e).__name__), "op %d %s on shape %s raised: %s"
                  % (oi, op, w["spec"]["shape"], traceback.format_exc()[-400:]))
            if op.get("gap"):
                k.sleep(op["gap"])
        k.finish()

    for si, w in enumerate(worlds):
        if w["spec"]["loop"]:
            k.spawn(w["stack"].loop, "loop%d" % si, daemon=True)
    k.spawn(driver, "driver")
    status = k.run()
    if status != "finished":
        v("C18/liveness/%s" % status, "run ended with kernel status %s; blocked=%s errors=%s"
          % (status, k.blocked_report(), [(n, repr(e)) for n, e, tb in k.errors]))
    for n, e, tb in k.errors:
        if n.startswith("loop"):
            v("C18/loop-task-died:%s" % type(e).__name__, tb[-400:])
    digest = k.digest()
    steps, vt = k.steps, k.now / 1e6
    k.shutdown()
    K_.set_preempt_mode("none")
    nontrivial = any(isinstance(it, list) for w in worlds for it in w["spec"]["shape"]) or probes.get("deferred_by_loop_task", 0) > 0
    return {"violations": viol, "nontrivial": nontrivial, "digest": digest, "faults": {}, "probes": probes,
            "steps": steps, "vtime": vt, "trace": list(k.notes)}


def _build(si, spec, v, probe):
    S = _S
    log = []
    classes = {}

    def cls(lid):
        if lid not in classes:
            classes[lid] = type("R%d_%d" % (si, lid), (S["Rec"],), {"lid": lid, "log": log, "consume_for": set()})
        return classes[lid]

    shape = spec["shape"]
    items = []
    for it in shape:
        if isinstance(it, list):
            probe("group_shape")
            tup = tuple(cls(m) for m in it)
            if spec.get("implicit"):
                probe("implicit_group")
                items.append(tup)
            else:
                items.append(S["YowParallelLayer"](tup))
        else:
            if spec["build"] == "instances":
                items.append(cls(it)())
            else:
                items.append(cls(it))
    if spec["build"] == "instances":
        probe("instances")
    if spec["build"] == "reversed":
        probe("reversed_true")
        st = S["YowStack"](tuple(items[::-1]), reversed=True)
    elif spec["build"] == "builder":
        b = S["YowStackBuilder"]()
        for n, it in enumerate(items):
            b.push(it)
            if n % 2 == 0:
                b.push(cls(1000 + n))
                b.pop()
                probe("builder_pop")
        st = b.build()
    else:
        st = S["YowStack"](tuple(items), reversed=False)
    # instances by id
    inst = {}
    for i, it in enumerate(shape):
        layer = st.getLayer(i)
        if isinstance(it, list):
            if layer.__class__ is not S["YowParallelLayer"]:
                v("C18/build/group-not-parallel", "position %d of %s is %s" % (i, shape, layer.__class__.__name__))
                continue
            got = [s.lid for s in layer.sublayers]
            if got != it:
                v("C18/build/group-members", "position %d: members %s, given %s" % (i, got, it))
            for s in layer.sublayers:
                inst[s.lid] = s
        else:
            if getattr(layer, "lid", None) != it:
                v("C18/build/order/%s" % spec["build"], "position %d of stack built as %s holds layer %r, given %r (shape %s)"
                  % (i, spec["build"], getattr(layer, "lid", layer.__class__.__name__), it, shape))
            inst[it] = layer
    return {"stack": st, "spec": spec, "log": log, "inst": inst, "classes": classes, "model": Model(shape)}


def _do_op(k, w, op, oi, v, probe, loops, worlds):
    S = _S
    st, log, model, inst = w["stack"], w["log"], w["model"], w["inst"]
    shape = w["spec"]["shape"]
    del log[:]
    kind = op["op"]
    if kind == "send":
        st.send([])
        want = model.send_from_top()
        got = [e for e in log if e[1] == "send"]
        if got != want:
            v("C18/data/send", "shape %s: send from the top visited %s, model %s" % (shape, got[:12], want[:12]))
        return
    if kind == "recv":
        st.receive([])
        want = model.recv_from_bottom()
        got = [e for e in log if e[1] == "recv"]
        if got != want:
            v("C18/data/receive", "shape %s: receive from the bottom visited %s, model %s" % (shape, got[:12], want[:12]))
        return
    if kind == "iface":
        lid = op["arg"]
        c = w["classes"][lid]
        got = st.getLayerInterface(c)
        ingroup = isinstance(shape[model.pos_of(lid)], list)
        if ingroup:
            probe("interface_in_group")
        if got is None or got._layer is not inst[lid]:
            v("C18/interface/%s" % ("in-group" if ingroup else "top-level"),
              "shape %s: getLayerInterface(class of layer %r) returned %r" % (shape, lid, got))
        # and from inside another layer
        other = inst[shape[0] if not isinstance(shape[0], list) else shape[0][0]]
        got2 = other.getLayerInterface(c)
        if got2 is None or got2._layer is not inst[lid]:
            v("C18/interface/from-layer/%s" % ("in-group" if ingroup else "top-level"),
              "shape %s: layer.getLayerInterface(class of %r) returned %r" % (shape, lid, got2))
        return
    # ---- events
    name = op["name"]
    consume = set(op["consume"])
    for lid, layer in inst.items():
        layer.consume_for = set([name]) if lid in consume else set()
        layer.__class__.consume_for = layer.consume_for
    if consume:
        pass
    ev = S["YowLayerEvent"](name, detached=True) if op["detached"] else S["YowLayerEvent"](name)
    src = op["from"]
    pos = model.pos_of(src)
    ingroup = isinstance(shape[pos], list)
    if kind == "emit":
        direction, include = 1, False
        inst[src].emitEvent(ev)
    elif kind == "broadcast":
        direction, include = -1, False
        inst[src].broadcastEvent(ev)
    elif kind == "stack_emit":
        direction, include, pos, ingroup = 1, True, 0, False
        st.emitEvent(ev)
    else:
        direction, include, pos, ingroup = -1, True, len(shape) - 1, False
        st.broadcastEvent(ev)
    want, unjudged, first_item = model.event(pos, direction, consume, include)
    if ingroup:
        unjudged |= set(model.members(pos))
    if any(m in consume for m in want):
        probe("consumer_stops")
    # deferred part needs a loop task; give it bounded virtual time
    if op["detached"]:
        if loops == 0:
            return
        k.sleep(0.35)
    sight = [e for e in log if e[1] == "event" and e[2] == name]
    got = [e[0] for e in sight if e[0] not in unjudged]
    if got != want:
        kindsig = "duplicate" if len(set(got)) < len(got) else ("missing" if set(want) - set(got) else
                                                               ("extra" if set(got) - set(want) else "order"))
        v("C18/event/%s/%s%s" % (kind, kindsig, "/deferred" if op["detached"] else ""),
          "shape %s, %s %s from %r (consumers %s): layers that saw it %s, model %s (unjudged %s)"
          % (shape, "deferred" if op["detached"] else "normal", kind, src, sorted(consume), got, want, sorted(unjudged)))
        return
    if op["detached"]:
        first_members = set(model.members(first_item)) if first_item is not None else set()
        if include and first_item is not None and 0 <= first_item + direction < len(shape):
            # the stack-level API offers the event to the outermost layer and lets that layer emit it: two
            # positions are reached inside the call
            first_members |= set(model.members(first_item + direction))
        early = [e for e in sight if e[0] not in unjudged and e[0] not in first_members and not e[3].startswith("loop")]
        if early:
            v("C18/event/%s/deferred-delivered-inline" % kind,
              "shape %s: deferred event reached %s inside the emitter's call (task %s), not from a loop task"
              % (shape, [e[0] for e in early], early[0][3]))
        byloop = [e for e in sight if e[3].startswith("loop")]
        if byloop:
            probe("deferred_by_loop_task")
            mine = "loop%d" % worlds.index(w)
            if any(e[3] != mine for e in byloop):
                probe("deferred_by_other_stacks_loop")
