"""C11 — concurrent senders never corrupt the encrypted stream.

World W1: real network layer + asyncore dispatcher over SimSocket, segments, Noise, coder, and a
top group (auth layer, the real iq layer with its keep-alive thread, application double).  After
login 2-4 application sender tasks and the keep-alive thread send concurrently while the loop
thread reads (server traffic keeps it busy) and flushes short-sent data.  Two observation points:
(i) the dispatcher.sendData call sequence (what the layer locks are responsible for) and (ii) the
bytes accepted by the socket.  The strict in-order Noise responder is the peer."""
import os

from sim.rng import stream, rbytes
from worlds import wire
from doubles import refcodec as RC

PROP = "C11"
LEVEL = "exploration"
RULE = ("case = 2-4 application sender tasks x 5-30 generated stanzas each (unique ids; incl. >64 KiB stanzas that leave "
        "data in the dispatcher's buffer) + keep-alive thread (interval 1-3 virtual s, server answers pings) + server "
        "traffic towards the client x short-send probability x TCP chunking x scheduling policy x pre-emption mode "
        "(sync points only / PY_START / LINE); distinct = distinct schedule+wire digests; non-trivial = at least two "
        "different tasks had a stanza inside the stack at overlapping times (lock contention observed or a context switch "
        "occurred between a stanza entering the coder and its last byte reaching the socket)")
COMPONENTS = {"real": ["yowsup.layers.__init__ (YowLayer.toLower locks, YowParallelLayer)", "yowsup.layers.coder", "yowsup.layers.noise "
                       "(layer, segments, handshake worker)", "yowsup.layers.network + AsyncoreConnectionDispatcher", "yowsup.layers."
                       "protocol_iq (YowIqProtocolLayer + YowPingThread)", "yowsup.layers.auth", "consonance transport", "asyncore"],
              "stub": ["Noise responder/server double", "reference codec", "SimSocket/select with short sends", "baton kernel"]}
ASSUMPTIONS = ["six 1.17 shim on sys.path", "consonance randint(float) coerced by the RNG seam", "context switches at simulated "
               "primitives and PEP-669 events of yowsup/consonance/asyncore code; C calls atomic",
               "per-sender ordering is not demanded (the property does not state it)"]
BUDGET = {"quick": (1600, 150), "thorough": (80000, 2700)}
FAULTS = ["short_send", "tcp_cut", "tcp_coalesce"]
PROBES = ["lock_contention", "ping_while_app_frame_in_flight", "buffered_after_short_send", "switch_inside_frame",
          "big_frame_gt_64k", "pings_sent", "ping_timeout_run", "reconnect_while_senders_active", "send_refused_during_reconnect", "sender_released_at_connected",
          "connections_per_run"]
SHRINK = ["senders"]
PHONE = "4915112345678"
_S = {}


def setup():
    wire.setup_process()
    from yowsup.layers import YowLayer, YowLayerEvent, YowParallelLayer
    from yowsup.layers.network import YowNetworkLayer
    from yowsup.layers.auth import YowAuthenticationProtocolLayer
    from yowsup.layers.noise.layer import YowNoiseLayer
    from yowsup.layers.noise.layer_noise_segments import YowNoiseSegmentsLayer
    from yowsup.layers.coder import YowCoderLayer
    from yowsup.layers.protocol_iq import YowIqProtocolLayer
    from yowsup.stacks import YowStack
    _S.update(locals())

    class App(YowLayer):
        world = None

        def __init__(self):
            super(App, self).__init__()
            self.world = App.world

        def receive(self, node):
            self.world.on_top(node)

        def send(self, data):
            self.toLower(data)

        def onEvent(self, ev):
            self.world.on_event(ev)
            return False

    _S["App"] = App
    from yowsup.layers.network.dispatcher.dispatcher_asyncore import AsyncoreConnectionDispatcher as DA
    orig = DA.sendData

    def sendData(self, data):
        # observation point (i): observation only, the real method does the work
        w = App.world
        if w is not None and not w.closed:
            w.send_calls.append(bytes(data))
            # keyed by the connection the dispatcher's socket belongs to (not by id(self): ids are reused)
            conn = getattr(getattr(self, "socket", None), "conn", None)
            w.send_calls_by.setdefault(conn.id if conn is not None else None, []).append(bytes(data))
            if len(data) > 65536:
                w.probe("big_frame_gt_64k")
        r = orig(self, data)
        if w is not None and not w.closed and len(getattr(self, "out_buffer", b"")):
            w.probe("buffered_after_short_send")
        return r

    DA.sendData = sendData


def total(tier):
    return BUDGET[tier][0]


def case(idx, tier, base):
    seed = base * (1 << 20) + idx
    r = stream(seed, "workload")
    ns = r.randint(2, 4)
    senders = []
    sid = 0
    for s in range(ns):
        n = r.randint(5, 30)
        items = []
        for _ in range(n):
            x = r.random()
            big = "mid" if x < 0.12 else ("list" if x < 0.15 else None)
            items.append({"i": sid, "big": big, "gap": r.choice([0, 0, 0, 0.001, 0.05])})
            sid += 1
        senders.append(items)
    net = wire.draw_net(r)
    net["recv_cap"] = max(net["recv_cap"], 64)
    net["short_send_p"] = r.choice([0.0, 0.3, 0.8])
    sched = wire.draw_sched(r)
    # some histories go through 2-3 connections on the same stack while the senders keep sending: connection k ends
    # (peer close or a disconnect request of the application) after the server has decoded so many stanzas on it, the
    # application reconnects from its DISCONNECTED handler like YowInterfaceLayer does
    ends = []
    if r.random() < 0.3:
        for _ in range(r.randint(1, 2)):
            ends.append({"after": r.randint(1, max(2, sid // 3)), "how": r.choice(["peer_close", "app_disconnect"])})
    return {"seed": seed, "variant": r.choice(["XX", "IK"]), "senders": senders, "net": net, "sched": sched,
            "ping": r.choice([1, 1, 2, 3]), "srv_noise": r.choice([0, 5, 40]), "sid": sid, "ends": ends}


def repair(case):
    s = [x for x in case.get("senders", []) if x]
    if not s:
        return None
    c = dict(case)
    c["senders"] = s
    return c


def simplify(case):
    s = case["sched"]
    if s.get("preempt") != "none" or s.get("policy") != "lowest":
        c = dict(case)
        c["sched"] = {"policy": "lowest", "sticky": 0.0, "preempt": "none", "p": 0.0}
        yield c
    if s.get("preempt") == "line":
        c = dict(case)
        c["sched"] = dict(s, preempt="call")
        yield c
    if s.get("preempt") != "none":
        c = dict(case)
        c["sched"] = dict(s, preempt="none", p=0.0)
        yield c
    if case["net"].get("short_send_p"):
        c = dict(case)
        c["net"] = dict(case["net"], short_send_p=0.0)
        yield c
    if case.get("srv_noise"):
        c = dict(case)
        c["srv_noise"] = 0
        yield c
    if case.get("ping", 0) < 50:
        c = dict(case)
        c["ping"] = 1000
        yield c
    for si, lst in enumerate(case["senders"]):
        if len(lst) > 1:
            for part in (lst[:len(lst) // 2], lst[len(lst) // 2:]):
                c = dict(case)
                c["senders"] = [list(x) for x in case["senders"]]
                c["senders"][si] = part
                yield c
        for j, it in enumerate(lst):
            if it.get("big"):
                c = dict(case)
                c["senders"] = [[dict(y) for y in x] for x in case["senders"]]
                c["senders"][si][j]["big"] = None
                yield c
                break


class W(wire.World):
    def __init__(self, case):
        super(W, self).__init__(case["seed"], case["sched"], case["net"], max_time_s=900)
        self.case = case
        self.srv_rng = stream(case["seed"], "server")
        self.entered = []        # Nodes in the order they entered the coder (under the group's lock)
        self.entered_by = []     # task name per entry
        self.send_calls = []     # bytes of every dispatcher.sendData call
        self.send_calls_by = {}  # ... per dispatcher object (one per connection), in creation order
        self.ends = list(case.get("ends") or [])
        self.sessions = []       # per accepted connection: {"r": responder, "conn", "decoded": [...], "success": bool}
        self.epoch = 0           # bumped whenever a connection comes up or goes down
        self.entered_mark = 0    # len(entered) when the current connection's login completed
        self.decoded = []
        self.authed = False
        self.done_senders = 0
        self.inflight = {}       # task -> depth inside coder.send
        self.overlap = 0
        self.sess = None
        self.disconnected = False
        self.closed = False
        self.disc_reason = None
        self.want_app_disconnect = False
        self.window_waiters = []
        self.sends_across_reconnect = 0

    def build(self):
        S = _S
        from yowsup.profile.profile import YowProfile
        from yowsup.config.v1.config import Config
        from consonance.structs.keypair import KeyPair as CK
        from consonance.structs.publickey import PublicKey as CPub
        from consonance.structs.privatekey import PrivateKey as CPriv
        from doubles.noise_server import keypair_from_private
        kr = stream(self.seed, "statics")
        self.server_key = keypair_from_private(rbytes(kr, 32))
        cli = keypair_from_private(rbytes(kr, 32))
        rs = CPub(bytes(self.server_key.public.data)) if self.case["variant"] == "IK" else None
        conf = Config(phone=PHONE, client_static_keypair=CK(CPub(cli.public.data), CPriv(cli.private.data)),
                      server_static_public=rs)
        os.makedirs(os.path.join(self.cfg_home, "yowsup", PHONE), exist_ok=True)
        S["App"].world = self
        layers = (S["YowNetworkLayer"], S["YowNoiseSegmentsLayer"], S["YowNoiseLayer"], S["YowCoderLayer"],
                  S["YowParallelLayer"]((S["App"], S["YowAuthenticationProtocolLayer"], S["YowIqProtocolLayer"])))
        st = S["YowStack"](layers, reversed=False)
        st.setProfile(YowProfile(PHONE, conf))
        st.setProp(S["YowIqProtocolLayer"].PROP_PING_INTERVAL, self.case["ping"])
        self.stack = st
        self.group = st.getLayer(4)
        self.app = self.group.sublayers[0]
        self.coder = st.getLayer(3)
        self.netlayer = st.getLayer(0)
        # observation point: stanzas entering the coder (observation only; calls the real method)
        orig_send = self.coder.send
        w = self

        def coder_send(node):
            k = w.k
            me = k.cur.name if k.cur is not None else "?"
            n = RC.from_ptn(node)
            w.entered.append(n)
            w.entered_by.append(me)
            if n.tag == "iq" and n["xmlns"] == "w:p":
                w.probe("pings_sent")
            before = k.switches
            cc0 = w.net.connect_count
            try:
                r = orig_send(node)
            finally:
                if w.net.connect_count != cc0:
                    # this send was on its way down while the next connection was being set up
                    w.sends_across_reconnect += 1
            if k.switches != before:
                w.probe("switch_inside_frame")
            return r

        self.coder.send = coder_send

    def on_top(self, node):
        n = RC.from_ptn(node)
        if n.tag == "success":
            self.authed = True
            self.epoch += 1
            self.entered_mark = len(self.entered)

    def on_event(self, ev):
        name = ev.getName()
        if name.endswith("network.disconnect"):
            self.disc_reason = ev.getArg("reason")
        if name.endswith("network.connected"):
            self.epoch += 1
            if self.window_waiters:
                # the application double sits in front of the authentication layer: at this point the connection is up
                # and the login has not been started yet.  Senders parked for this moment become runnable; whether one
                # of them runs now or later is the scheduler's choice.
                self.probe("sender_released_at_connected")
                for t in self.window_waiters:
                    self.k.wake(t)
                self.window_waiters = []
                self.k.yield_()
        if name.endswith("network.disconnected"):
            self.epoch += 1
            self.authed = False
            if len(self.sessions) <= len(self.ends) and not self.closed and not self.violations:
                # more connections are planned: reconnect from the handler, like YowInterfaceLayer.onDisconnected
                self.probe("reconnect_while_senders_active")
                self.disc_reason = None
                self.app.getLayerInterface(_S["YowNetworkLayer"]).connect()
            else:
                self.disconnected = True

    # ---------------------------------------------------------------- tasks
    def t_main(self):
        S = _S
        self.stack.broadcastEvent(S["YowLayerEvent"](S["YowNetworkLayer"].EVENT_STATE_CONNECT))
        self.stack.loop()

    def t_server(self):
        from doubles.noise_server import NoiseResponder, ProtocolViolation
        net = self.net
        noise_left = self.case.get("srv_noise", 0)
        while True:
            ev = net.next_event()
            kind, conn = ev
            if kind == "accept":
                if len(self.sessions) > len(self.ends):
                    continue
                ses = {"r": NoiseResponder(self.server_key), "conn": conn, "decoded": [], "success": False, "no": len(self.sessions),
                       "ended": False}
                conn.user = ses
                self.sessions.append(ses)
                self.sess = ses["r"]
            elif kind == "data" and getattr(conn, "user", None) is not None:
                ses = conn.user
                r = ses["r"]
                data = bytes(conn.c2s.buf)
                del conn.c2s.buf[:]
                if ses["ended"]:
                    continue
                try:
                    r.feed(data)
                except ProtocolViolation as e:
                    if ses["no"] > 0 and r.rx_frames == 0 and self.sends_across_reconnect and "prologue" in str(e):
                        # one specific history: a send that had passed the Noise layer with the previous connection's session
                        # was still on its way down when the next connection came up, and its bytes went to the new socket
                        # ahead of the prologue (known finding, the C11 face of F34)
                        sig = "C11/socket/bad-prologue/send-in-flight-across-the-reconnect"
                    else:
                        sig = "C11/socket/%s" % _slug(str(e))
                    self.violate(sig, "connection %d: the byte stream reaching the socket is corrupt: %s "
                                 "(after %d good frames; %d stanzas had entered the coder)" % (ses["no"], e, r.rx_frames, len(self.entered)))
                    ses["ended"] = True
                    net.server_close(conn)
                    continue
                if r.stage == "transport" and not ses["success"]:
                    ses["success"] = True
                    r.send_frame(RC.encode(RC.Node("success", {"t": "1", "props": "1", "location": "atn", "creation": "1"})))
                while r.rx:
                    raw = r.rx.pop(0)
                    try:
                        n = RC.decode(raw)
                    except Exception as e:  # noqa
                        self.violate("C11/socket/undecodable-stanza", "frame %d decrypts but does not decode: %r" % (len(self.decoded), e))
                        continue
                    self.decoded.append(n)
                    ses["decoded"].append(n)
                    if n.tag == "iq" and n["xmlns"] == "w:p":
                        r.send_frame(RC.encode(RC.Node("iq", {"type": "result", "from": "s.whatsapp.net", "id": n["id"]})))
                    elif noise_left > 0:
                        # server traffic keeps the loop thread busy reading while others send
                        noise_left -= 1
                        r.send_frame(RC.encode(RC.Node("ib", {"from": "s.whatsapp.net"}, [RC.Node("dirty", {"type": "groups", "timestamp": str(noise_left)})])))
                out = r.take_out()
                if out:
                    net.server_send(conn, out)
                end = self.ends[ses["no"]] if ses["no"] < len(self.ends) else None
                if end is not None and len(ses["decoded"]) >= end["after"] and not ses["ended"] and not ses.get("end_fired"):
                    ses["end_fired"] = True
                    self.k.note("connection", ses["no"], "ends:", end["how"])
                    if end["how"] == "peer_close":
                        ses["ended"] = True
                        net.server_close(conn)
                    else:
                        self.want_app_disconnect = ses["no"] + 1

    def t_sender(self, si):
        k = self.k
        items = self.case["senders"][si]
        end = k.now + int(120e6)
        while not self.authed:
            if k.now > end or self.disconnected:
                self.done_senders += 1
                return
            k.sleep(0.002)
        for it in items:
            n = wire.gen_stanza(self.seed, it["i"], it.get("big"))
            if n.tag in ("iq", "success", "failure", "stream:error", "stream:features"):
                n.tag = "x" + n.tag
            if self.want_app_disconnect:
                target, self.want_app_disconnect = self.want_app_disconnect - 1, False
                if target == len(self.sessions) - 1 and self.authed:
                    self.stack.broadcastEvent(_S["YowLayerEvent"](_S["YowNetworkLayer"].EVENT_STATE_DISCONNECT))
            e0, up0 = self.epoch, self.authed
            try:
                self.app.toLower(RC.to_ptn(n))
            except Exception as e:  # noqa
                if self.ends and (not up0 or not self.authed or self.epoch != e0 or self.sessions[-1]["ended"]
                                  or self.sessions[-1]["conn"].client_closed):
                    # the connection was going down / coming up while this send was under way: refusing it is fine
                    self.probe("send_refused_during_reconnect")
                elif not self.disconnected:
                    self.violate("C11/send-raises:%s" % type(e).__name__, "sender %d: %r" % (si, e))
                    break
                else:
                    break
            if it.get("gap"):
                k.sleep(it["gap"])
            if self.ends and not self.authed:
                # between connections: some senders go on at once, some wait a little, some wait for the moment the next
                # connection comes up, so that sends fall into every part of the transition
                x = self.srv_rng.random()
                if x < 0.4:
                    k.sleep(0.002)
                elif x < 0.8 and len(self.sessions) <= len(self.ends):
                    self.window_waiters.append(k.cur)
                    k.wait("next-connection", k.now + int(5e6))
        self.done_senders += 1

    def t_driver(self):
        k = self.k
        ns = len(self.case["senders"])
        end = k.now + int(400e6)
        while self.done_senders < ns and k.now < end:
            k.sleep(0.01)
        # let the keep-alive fire at least once more and everything drain
        k.sleep(self.case["ping"] + 0.5 if self.case["ping"] < 50 else 0.5)
        settle = k.now + int(60e6)
        if self.ends and len(self.sessions) > 1:
            # several connections: some stanzas were legitimately lost with a connection; wait for what entered on the
            # last connection up to now (the keep-alive goes on sending)
            self.final_mark = len(self.entered)
            tail = [n.key() for n in self.entered[self.entered_mark:self.final_mark]]
            while k.now < settle and not self.violations and not self.disconnected:
                have = set(n.key() for n in self.decoded)
                if all(t in have for t in tail):
                    break
                k.sleep(0.05)
        else:
            while k.now < settle and len(self.decoded) < len(self.entered) and not self.violations and not self.disconnected:
                k.sleep(0.05)
        if getattr(self, "final_mark", None) is None and self.ends and len(self.sessions) > 1:
            # the second connection came up only after the senders had finished: what has entered on it up to now (the
            # keep-alive goes on sending) is given time to arrive, later entries are not judged
            self.final_mark = len(self.entered)
            tail = [n.key() for n in self.entered[self.entered_mark:self.final_mark]]
            drain = k.now + int(10e6)
            while k.now < drain and not self.violations and not self.disconnected:
                have = set(n.key() for n in self.decoded)
                if all(t in have for t in tail):
                    break
                k.sleep(0.05)
        k.finish()

    # ---------------------------------------------------------------- oracle
    def judge(self):
        # (i) dispatcher.sendData call sequence: whole frames, each header directly followed by its payload
        # (ii) socket bytes; per connection: what was accepted by the socket must be a prefix of what the layers handed
        # to that connection's dispatcher
        by_conn = {}
        for e in self.net.log:
            if e[0] == "send":
                by_conn.setdefault(e[1], []).append(e[2])
        for ci, parts in sorted(by_conn.items()):
            sock = b"".join(parts)
            stream_i = b"".join(self.send_calls_by.get(ci, []))
            if sock != stream_i[:len(sock)] and not self.violations:
                i = 0
                while i < min(len(sock), len(stream_i)) and sock[i] == stream_i[i]:
                    i += 1
                self.violate("C11/socket/differs-from-senddata", "connection %d: socket byte stream diverges from the sendData stream "
                             "at offset %d (socket %d bytes, sendData %d bytes)" % (ci, i, len(sock), len(stream_i)))
        # exactly once
        want = {}
        for n in self.entered:
            want[n.key()] = want.get(n.key(), 0) + 1
        got = {}
        for n in self.decoded:
            got[n.key()] = got.get(n.key(), 0) + 1
        for key, c in got.items():
            if c > want.get(key, 0):
                self.violate("C11/stanza/%s" % ("duplicate" if key in want else "unknown"),
                             "server decoded %d copies of <%s id=%s>, %d were sent" % (c, key[0], dict(key[1]).get("id"), want.get(key, 0)))
        if self.ends and len(self.sessions) > 1:
            # several connections: what entered while a connection was going down or coming up may be lost with it; what
            # entered after the last login completed (and that connection stayed up) must arrive
            self.probe("connections_per_run", len(self.sessions))
            if not self.disconnected and len(self.sessions) == len(self.ends) + 1 and self.authed:
                tail = {}
                for n in self.entered[self.entered_mark:getattr(self, "final_mark", len(self.entered))]:
                    tail[n.key()] = tail.get(n.key(), 0) + 1
                for key, c in tail.items():
                    if got.get(key, 0) < 1:
                        self.violate("C11/stanza/lost/after-reconnect", "<%s id=%s> entered the coder after the login of connection "
                                     "%d completed and never reached the server" % (key[0], dict(key[1]).get("id"), len(self.sessions) - 1))
                        break
        elif not self.disconnected:
            for key, c in want.items():
                if got.get(key, 0) < c:
                    self.violate("C11/stanza/lost", "<%s id=%s> was sent %d times, server decoded %d (entered %d, decoded %d)"
                                 % (key[0], dict(key[1]).get("id"), c, got.get(key, 0), len(self.entered), len(self.decoded)))
                    break
        elif self.disc_reason == "Ping Timeout":
            # slow simulated network: the pong was still in flight when the next ping was due; the keep-alive
            # closing the connection is correct behaviour (C16), not a statement about concurrent senders
            self.probe("ping_timeout_run")
        elif not self.violations:
            self.violate("C11/unexpected-disconnect", "the connection went down during a fault-free run; errors=%s"
                         % [(n, repr(e)) for n, e, tb in self.k.errors][:3])
        for (name, e, tb) in self.k.errors:
            if name.startswith("sender") or name in ("driver", "server"):
                self.violate("C11/harness-task:%s" % name, tb[-600:])

    def _frames_ok(self, data, where):
        # after the prologue (WA header, optional) the stream must be a sequence of whole frames
        pos = 0
        if data[:4] == b"WA\x04\x00":
            pos = 4
        nfr = 0
        while pos + 3 <= len(data):
            n = int.from_bytes(data[pos:pos + 3], "big")
            if pos + 3 + n > len(data):
                break
            pos += 3 + n
            nfr += 1
        return nfr


def _slug(s):
    out = []
    for ch in s.lower():
        if ch.isalnum():
            out.append(ch)
        elif out and out[-1] != "-":
            out.append("-")
    s = "".join(out).strip("-")
    # frame numbers vary from run to run: keep the signature stable
    import re
    return re.sub(r"\d+", "n", s)[:48]


def run(case):
    w = W(case)
    w.build()
    k = w.k
    k.spawn(w.t_server, "server", daemon=True)
    k.spawn(w.t_main, "main")
    for si in range(len(case["senders"])):
        k.spawn(lambda si=si: w.t_sender(si), "sender%d" % si)
    k.spawn(w.t_driver, "driver")
    status = w.run()
    if status != "finished":
        w.violate("C11/liveness/%s" % status, "kernel status %s; blocked=%s errors=%s" % (
            status, [(b["task"], b["on"]) for b in k.blocked_report()], [(n, repr(e)) for n, e, tb in k.errors][:3]))
    try:
        w.judge()
    except Exception:
        import traceback
        w.violate("C11/harness-judge", traceback.format_exc()[-800:])
    contention = 0
    for layer in (w.group, w.coder, w.stack.getLayer(2), w.stack.getLayer(1), w.netlayer):
        contention += getattr(layer.lock, "contended", 0)
    d = w.netlayer._dispatcher
    if d is not None and hasattr(d, "_send_lock"):
        contention += getattr(d._send_lock, "contended", 0)
    if contention:
        w.probe("lock_contention", contention)
    names = set(w.entered_by)
    if any(n.startswith("YowPing") or n == "YowPingThread" for n in names) and len(names) > 1:
        w.probe("ping_while_app_frame_in_flight")
    w.closed = True
    w.finish()
    nontrivial = bool(len(w.decoded) > 3 and (contention or w.probes.get("switch_inside_frame")))
    return w.result(nontrivial)
