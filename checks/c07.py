"""C07 — mandatory acknowledgements are sent exactly once and match the stanza.

World W2: one account A running the full stack (network layer with simulated dispatcher, coder,
Axolotl layers, protocol layers under any optional-module selection, application double) and a
peer P (full stack) used to produce end-to-end encrypted messages whose decrypted payload A cannot
present.  The server double injects notifications of every type, call stanzas and server pings
amid other traffic; the scheduler owns processing/delivery order; fault: duplicate delivery.
History oracle at the wire: per delivery exactly one matching ack / receipt / pong."""
from sim.rng import stream
from worlds import convo
from doubles.refcodec import Node

PROP = "C07"
LEVEL = "exploration"
RULE = ("case = optional-module selection (16 combinations, swept by idx) x 6-30 injected events: notifications (picture "
        "set/delete, status, contacts add/remove/update/sync, w:gp2 create/add/remove/subject, encrypt count/identity, "
        "unknown types; generated ids/JIDs/participants), calls (offer, transport, relaylatency, reject, terminate, unknown "
        "child), server pings, end-to-end messages from a peer with payload kinds A cannot present (unsupported media types, "
        "any media with the media module off, protocol/call/chat/contacts-array/hsm payloads), interleaved with ordinary "
        "traffic (peer texts, application pings, presence) x duplicate-delivery faults x scheduling; distinct = distinct "
        "event-order digests; non-trivial = at least 3 different stanza classes were injected and answered")
COMPONENTS = {"real": ["yowsup.layers.protocol_notifications", "protocol_contacts", "protocol_groups", "protocol_calls", "protocol_iq",
                       "protocol_messages", "protocol_media", "axolotl layers (control/send/receive)", "protocol_acks/receipts entities",
                       "coder", "network layer", "interface layer"],
              "stub": ["server double", "reference codec", "simulated dispatcher", "scheduler", "application double"]}
ASSUMPTIONS = ["six 1.17 shim", "actor assumption (one event at a time per account)", "the picture notification that is neither "
               "set nor delete is excluded (rejected by design)", "pure key-distribution payloads are excluded",
               "supported media delivered to the application is acknowledged by the application double, not judged here"]
BUDGET = {"quick": (800, 150), "thorough": (100000, 2700)}
FAULTS = ["srv_dup_delivery"]
PROBES = ["notif_ack", "call_offer_receipt", "call_ack", "pong", "unpresentable_receipt", "media_module_off_message",
          "encrypt_count_upload", "dup_answered_twice", "group_participant_ack", "participant_ack_for_id_without_dash"]
SHRINK = ["events"]
PA, PP = "4915120000001", "4915120000002"
JA, JP = PA + "@s.whatsapp.net", PP + "@s.whatsapp.net"
OTHER = "4915120000077@s.whatsapp.net"
GJ = "4915120000077-1500000000@g.us"
GJ_NEW = "120363025246125486@g.us"
NOTIFS = ["picture_set", "picture_delete", "status", "contacts_add", "contacts_remove", "contacts_update", "contacts_sync",
          "gp2_create", "gp2_add", "gp2_remove", "gp2_subject", "encrypt_count", "encrypt_identity", "unknown_type",
          "unknown_type2"]
CALLS = ["offer", "transport", "relaylatency", "reject", "terminate", "unknownchild"]
PAYLOADS = ["media_unsupported_type", "media_image", "media_document", "media_audio", "protocol", "call", "chat",
            "contacts_array", "hsm"]
_S = {}


def setup():
    convo.setup_process()
    from yowsup.structs import ProtocolTreeNode
    from yowsup.layers.protocol_messages.proto.e2e_pb2 import Message
    from yowsup.layers.protocol_iq.protocolentities import PingIqProtocolEntity
    from yowsup.layers.protocol_presence.protocolentities import AvailablePresenceProtocolEntity
    from yowsup.layers.protocol_messages.protocolentities import TextMessageProtocolEntity
    _S.update(locals())


def total(tier):
    return BUDGET[tier][0]


def case(idx, tier, base):
    seed = base * (1 << 20) + idx
    r = stream(seed, "workload")
    m = idx % 16
    modules = {"groups": bool(m & 1), "media": bool(m & 2), "privacy": bool(m & 4), "profiles": bool(m & 8)}
    ev = []
    n = r.randint(6, 30)
    for i in range(n):
        x = r.random()
        if x < 0.4:
            e = {"k": "notif", "sub": r.choice(NOTIFS), "part": r.random() < 0.3}
        elif x < 0.55:
            e = {"k": "call", "sub": r.choice(CALLS)}
        elif x < 0.65:
            e = {"k": "ping"}
        elif x < 0.85:
            e = {"k": "msg", "payload": r.choice(PAYLOADS), "group": r.random() < 0.3}
        else:
            e = {"k": "noise", "what": r.choice(["peer_text", "app_ping", "presence"])}
        e["n"] = i
        e["dup"] = e["k"] in ("notif", "call", "ping", "msg") and r.random() < 0.12
        ev.append(e)
    return {"seed": seed, "modules": modules, "events": ev, "burst": r.random() < 0.5}


def repair(case):
    return case if case.get("events") else None


def simplify(case):
    if case.get("burst"):
        c = dict(case)
        c["burst"] = False
        yield c
    for i, e in enumerate(case["events"]):
        if e.get("dup"):
            c = dict(case)
            c["events"] = [dict(x) for x in case["events"]]
            c["events"][i]["dup"] = False
            yield c


class W(convo.World):
    PROP = "C07"

    def __init__(self, case):
        super(W, self).__init__(case["seed"], {"prekeys": 40, "threshold": 2})
        self.case = case
        self.ready = {}
        self.expect = []      # (id, kind, spec dict, deliveries)
        self.status = None
        self.a = self.add_client("A", PA, modules=case["modules"])
        self.p = self.add_client("P", PP)
        self.server.groups[GJ] = {"creator": OTHER, "subject": "g", "participants": [OTHER, JA, JP]}
        self.server.low_mark = 0
        self.classes = set()

    def on_app_entity(self, client, e):
        if e.getTag() == "success":
            S = convo.S()
            if not client.stack.getProp(S["YowAuthenticationProtocolLayer"].PROP_PASSIVE, False):
                self.ready[client.name] = True

    def on_app_event(self, client, ev):
        if ev.getName().endswith("network.disconnected"):
            self.ready[client.name] = False

    def on_receive_exception(self, client, exc, tb):
        if client is self.a:
            last = self.a_last or ("?", "?")
            self.violate("exception-instead-of-ack/%s:%s" % (last[0], type(exc).__name__),
                         "A raised while handling %s: %s" % (last, tb[-600:]))
        else:
            self.client_error(client, "receive path", exc, tb)

    a_last = None

    # ---------------------------------------------------------------- stanza builders
    def mk(self, e):
        """Returns (node or None, expectation dict or None)."""
        r = stream(self.seed, "ev/%d" % e["n"])
        sid = "%s-%d-%d" % (e["k"], e["n"], r.randint(1000, 9999))
        frm = r.choice([OTHER, JP, "4915120000%03d@s.whatsapp.net" % r.randint(100, 999)])
        t = str(1700000000 + e["n"])
        if e["k"] == "notif":
            sub = e["sub"]
            base = {"id": sid, "t": t, "from": frm, "offline": "0", "notify": "x"}
            part = None
            if sub.startswith("gp2") or (e.get("part") and sub in ("unknown_type", "picture_set", "status")):
                part = frm
                # old-style group id (creator-timestamp), current-style group id (no dash), the status broadcast list
                base["from"] = r.choice([GJ, GJ, GJ_NEW] if sub.startswith("gp2") else [GJ, GJ_NEW, "status@broadcast"])
                if base["from"] != GJ:
                    self.probe("participant_ack_for_id_without_dash")
                base["participant"] = part
            if sub == "picture_set":
                base["type"] = "picture"
                ch = [Node("set", {"jid": frm, "id": str(r.randint(1, 99999))})]
            elif sub == "picture_delete":
                base["type"] = "picture"
                ch = [Node("delete", {"jid": frm})]
            elif sub == "status":
                base["type"] = "status"
                ch = [Node("set", None, None, b"hello \xc3\xa9")]
            elif sub.startswith("contacts"):
                base["type"] = "contacts"
                k = sub.split("_")[1]
                ch = [Node(k, {"jid": frm} if k != "sync" else {"after": t})]
            elif sub == "gp2_create":
                base["type"] = "w:gp2"
                ch = [Node("create", {"type": "new", "key": "k"}, [Node("group", {"id": GJ.split("@")[0], "creator": OTHER,
                      "creation": t, "subject": "s", "s_t": t, "s_o": OTHER}, [Node("participant", {"jid": OTHER, "type": "admin"}),
                                                                             Node("participant", {"jid": JA})])])]
            elif sub == "gp2_add":
                base["type"] = "w:gp2"
                ch = [Node("add", None, [Node("participant", {"jid": JP})])]
            elif sub == "gp2_remove":
                base["type"] = "w:gp2"
                ch = [Node("remove", {"subject": "s"}, [Node("participant", {"jid": JP})])]
            elif sub == "gp2_subject":
                base["type"] = "w:gp2"
                ch = [Node("subject", {"subject": "new", "s_t": t, "s_o": OTHER})]
            elif sub == "encrypt_count":
                base["type"] = "encrypt"
                base["from"] = "s.whatsapp.net"
                ch = [Node("count", {"value": str(r.randint(0, 5))})]
            elif sub == "encrypt_identity":
                base["type"] = "encrypt"
                base["from"] = JP
                ch = [Node("identity")]
            elif sub == "unknown_type":
                base["type"] = r.choice(["business", "devices", "server_sync", "psa"])
                ch = [Node("whatever", {"x": "1"})]
            else:
                base["type"] = r.choice(["mediaretry", "account_sync"])
                ch = []
            exp = {"tag": "ack", "class": "notification", "type": base["type"], "to": base["from"], "participant": base.get("participant")}
            return Node("notification", base, ch), sid, exp
        if e["k"] == "call":
            sub = e["sub"]
            attrs = {"from": frm, "id": sid, "t": t, "offline": "0", "notify": "x"}
            cid = "CID%d" % r.randint(1, 99999)
            if sub == "unknownchild":
                ch = [Node("preaccept", {"call-id": cid})]
            else:
                ch = [Node(sub, {"call-id": cid})]
            if sub == "offer":
                exp = {"tag": "receipt", "to": frm, "offer": cid}
            else:
                exp = {"tag": "ack", "class": "call", "to": frm, "type": None, "participant": None}
            return Node("call", attrs, ch), sid, exp
        if e["k"] == "ping":
            return Node("iq", {"type": "get", "xmlns": "urn:xmpp:ping", "from": "s.whatsapp.net", "id": sid}), sid, \
                {"tag": "iq", "type": "result"}
        return None, None, None

    def peer_message(self, e):
        """Runs in P's thread: P encrypts and sends a message whose payload A cannot present."""
        S = _S
        r = stream(self.seed, "ev/%d" % e["n"])
        m = S["Message"]()
        p = e["payload"]
        mtype, mediatype = "text", None
        if p == "media_unsupported_type":
            mtype, mediatype = "media", r.choice(["vcard", "livelocation", "product", "unknown"])
            m.document_message.url = "https://x/%d" % e["n"]
        elif p == "media_image":
            mtype, mediatype = "media", "image"
            m.image_message.url = "https://x/%d" % e["n"]
            m.image_message.mimetype = "image/jpeg"
            m.image_message.file_sha256 = b"\x01" * 32
            m.image_message.file_length = 10
            m.image_message.height = 1
            m.image_message.width = 1
            m.image_message.media_key = b"\x02" * 32
        elif p == "media_document":
            mtype, mediatype = "media", "document"
            m.document_message.url = "https://x/%d" % e["n"]
            m.document_message.mimetype = "application/pdf"
            m.document_message.title = "t"
            m.document_message.file_sha256 = b"\x01" * 32
            m.document_message.file_length = 10
            m.document_message.page_count = 1
            m.document_message.media_key = b"\x02" * 32
            m.document_message.file_name = "f.pdf"
        elif p == "media_audio":
            mtype, mediatype = "media", "audio"
            m.audio_message.url = "https://x/%d" % e["n"]
            m.audio_message.mimetype = "audio/ogg"
            m.audio_message.file_sha256 = b"\x01" * 32
            m.audio_message.file_length = 10
            m.audio_message.seconds = 1
            m.audio_message.ptt = False
            m.audio_message.media_key = b"\x02" * 32
        elif p == "protocol":
            m.protocol_message.key.remote_jid = JA
            m.protocol_message.key.from_me = True
            m.protocol_message.key.id = "ABCDEF%d" % e["n"]
            m.protocol_message.type = 0
        elif p == "call":
            m.call.call_key = b"\x03" * 32
        elif p == "chat":
            m.chat.display_name = "chat %d" % e["n"]
            m.chat.id = "id%d" % e["n"]
        elif p == "contacts_array":
            m.contacts_array_message.display_name = "two contacts"
        else:
            m.highly_structured_message.namespace = "ns"
            m.highly_structured_message.element_name = "el"
        to = GJ if e.get("group") else JA
        sid = "msg-%d-%d" % (e["n"], r.randint(1000, 9999))
        attrs = {"to": to, "type": mtype, "id": sid}
        pattrs = {"mediatype": mediatype} if mediatype else {}
        node = S["ProtocolTreeNode"]("message", attrs, [S["ProtocolTreeNode"]("proto", pattrs, None, m.SerializeToString())])
        supported_media = ("image", "sticker", "audio", "ptt", "video", "gif", "location", "contact", "document", "url")
        presentable = mtype == "media" and mediatype in supported_media and self.case["modules"]["media"]
        exp = None
        if not presentable:
            exp = {"tag": "receipt", "to": GJ if e.get("group") else JP, "participant": JP if e.get("group") else None,
                   "plain": True}
            if mtype == "media" and not self.case["modules"]["media"]:
                self.probe("media_module_off_message")
        self.expect.append([sid, "msg/" + p + ("/media-off" if mtype == "media" and not self.case["modules"]["media"] else ""),
                            exp, 2 if e.get("dup") else 1])
        if e.get("dup"):
            for rj in ([JA] if not e.get("group") else [JA]):
                self.server.dup_plan[(rj, sid, JP)] = 1
        # below the protocol layers: hand the plaintext node to the encryption send layer of P
        self.p.stack.getLayer(3).send(node)

    # ---------------------------------------------------------------- script
    def director(self):
        S = _S
        k = self.k
        r = stream(self.seed, "director")
        self.a.start()
        self.p.start()
        if not self.wait_until(lambda: self.ready.get("A") and self.ready.get("P"), 120):
            self.status = "stuck-at-login"
            return
        # a first exchange so that sessions exist both ways (not judged)
        self.p.post_op(lambda: self.p.app.toLower(S["TextMessageProtocolEntity"]("hello", to=JA)))
        if not self.wait_quiescent(120):
            self.status = "stuck"
            return
        for e in self.case["events"]:
            if self.violations:
                break
            if not self.case.get("burst"):
                if not self.wait_quiescent(120):
                    self.status = "stuck"
                    return
            elif r.random() < 0.3:
                k.sleep(0.002)
            if not (self.ready.get("A") and self.ready.get("P")):
                if not self.wait_until(lambda: self.ready.get("A") and self.ready.get("P"), 60):
                    self.status = "stuck-not-ready"
                    return
            kind = e["k"]
            if kind in ("notif", "call", "ping"):
                node, sid, exp = self.mk(e)
                n = 2 if e.get("dup") else 1
                self.expect.append([sid, "%s/%s" % (kind, e.get("sub", "")), exp, n])
                self.classes.add(kind + "/" + e.get("sub", ""))
                for _ in range(n):
                    self.server.to_jid(JA, node)
                if n == 2:
                    self.on_fault("srv_dup_delivery", sid, {})
                self.kick_server()
            elif kind == "msg":
                self.classes.add("msg/" + e["payload"])
                if e.get("dup"):
                    self.on_fault("srv_dup_delivery", e["n"], {})
                self.p.post_op(lambda e=e: self.peer_message(e))
            else:
                w = e["what"]
                if w == "peer_text":
                    self.p.post_op(lambda e=e: self.p.app.toLower(S["TextMessageProtocolEntity"]("noise %d" % e["n"], to=JA)))
                elif w == "app_ping":
                    self.a.post_op(lambda: self.a.app.toLower(S["PingIqProtocolEntity"]()))
                else:
                    self.a.post_op(lambda: self.a.app.toLower(S["AvailablePresenceProtocolEntity"]()))
        if not self.wait_quiescent(240):
            self.status = "stuck"
            return
        self.status = "done"

    def on_client_stanza(self, client, cid, node, data):
        if client is self.a and node.tag == "iq" and node["xmlns"] == "encrypt" and node["type"] == "set":
            self.uploads = getattr(self, "uploads", 0) + 1
            if self.uploads > 1:
                self.probe("encrypt_count_upload")

    # ---------------------------------------------------------------- oracle
    def judge(self, kstatus):
        if self.status != "done" or kstatus != "finished":
            if not self.violations:
                self.violate("liveness/%s" % (self.status or kstatus), self.stuck_report())
            return
        out = self.a.wire_out
        for sid, label, exp, deliveries in self.expect:
            if exp is None:
                continue
            answers = [n for n in out if n["id"] == sid and n.tag in ("ack", "receipt", "iq")
                       and not (n.tag == "receipt" and n["type"] == "retry")]
            retries = [n for n in out if n["id"] == sid and n.tag == "receipt" and n["type"] == "retry"]
            good = [n for n in answers if self.matches(n, exp)]
            kindsig = label
            if len(answers) != deliveries:
                self.violate("%s/%s" % ("no-answer" if len(answers) < deliveries else "answered-twice", kindsig),
                             "%s id=%s was delivered %d time(s); A sent %d answer(s) %s (retry receipts: %d); expected %s"
                             % (label, sid, deliveries, len(answers), [a.short(1) for a in answers][:3], len(retries), exp))
            elif len(good) != deliveries:
                bad = [a for a in answers if not self.matches(a, exp)][0]
                self.violate("wrong-answer/%s" % kindsig, "%s id=%s: answer %s does not match %s" % (label, sid, bad.short(1), exp))
            else:
                if exp["tag"] == "ack" and exp.get("class") == "notification":
                    self.probe("notif_ack")
                    if exp.get("participant"):
                        self.probe("group_participant_ack")
                elif exp["tag"] == "ack":
                    self.probe("call_ack")
                elif exp.get("offer"):
                    self.probe("call_offer_receipt")
                elif exp["tag"] == "iq":
                    self.probe("pong")
                else:
                    self.probe("unpresentable_receipt")
                if deliveries == 2:
                    self.probe("dup_answered_twice")

    def matches(self, n, exp):
        if n.tag != exp["tag"]:
            return False
        if exp["tag"] == "ack":
            return (n["class"] == exp["class"] and n["to"] == exp["to"] and n["type"] == exp.get("type")
                    and n["participant"] == exp.get("participant"))
        if exp["tag"] == "iq":
            return n["type"] == "result"
        if exp.get("offer"):
            off = n.child("offer")
            return n["to"] == exp["to"] and off is not None and off["call-id"] == exp["offer"]
        return n["to"] == exp["to"] and n["participant"] == exp.get("participant") and n["type"] in (None, "read")


def run(case):
    w = W(case)
    try:
        ks = w.run()
        w.judge(ks)
    finally:
        w.finish()
    return w.result(len(w.classes) >= 3 and not w.violations or bool(w.violations))
