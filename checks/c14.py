"""C14 — one-time prekeys: none lost or re-offered between generation, upload and use.

World W2: account A (small prekey batch / threshold knobs), the server double with scripted
behaviour for key uploads (result / error / connection lost before the result), key-count
requests, a peer P that consumes handed-out prekeys with first messages (which the server may
replay), clean restarts of A and crashes of A at SQL boundaries during key generation or during
confirmation processing.  Reference model per key id: generated -> offered -> confirmed ->
consumed, maintained from what the harness itself observed (upload stanzas, delivered results,
hand-outs); oracle over A's store (read through the store API) and the upload stanzas."""
import os

from sim import storage
from sim.rng import stream
from worlds import convo
from doubles.refcodec import Node

PROP = "C14"
LEVEL = "exploration"
RULE = ("case = prekey batch size 1-15 x regeneration threshold 1-10 x 4-20 events over {login, clean restart, crash at the "
        "k-th SQL boundary of the next login (generation / confirmation), server asks for keys, next upload answered with "
        "result | error | connection lost before the result, peer sends a first message (consumes a handed-out prekey), the "
        "same first message replayed}; after every event the system runs to quiescence and store + uploads are compared with "
        "the life-cycle model; distinct = distinct event digests; non-trivial = at least two uploads were observed and one of "
        "them was not confirmed, or a prekey was consumed")
COMPONENTS = {"real": ["yowsup.axolotl.manager (level_prekeys, load_unsent_prekeys, set_prekeys_as_sent, signed prekeys)",
                       "yowsup.layers.axolotl.layer_control (flush_keys / on_keys_flushed / reboot)", "liteprekeystore / "
                       "litesignedprekeystore (real sqlite file)", "iq_keys_set entity", "receive layer (prekey consumption)",
                       "python-axolotl"],
              "stub": ["server double with scripted upload replies", "SQL statement proxy with per-process crash plan", "scheduler",
                       "life-cycle model"]}
ASSUMPTIONS = ["six 1.17 shim", "actor assumption", "SQLite atomic commit trusted (crash = rollback of the open transaction)",
               "a crash inside confirmation processing may leave the batch on either side of that one transition"]
BUDGET = {"quick": (600, 150), "thorough": (150000, 2700)}
FAULTS = ["upload_error", "upload_connection_lost", "crash_sql_boundary", "clean_restart", "srv_replay_first_message"]
PROBES = ["unconfirmed_upload_reoffered", "confirmed_not_reoffered", "count_request_upload", "prekey_consumed",
          "replay_refused", "crash_during_generation", "crash_during_confirmation", "signature_verified",
          "two_uploads_outstanding", "delayed_upload_result", "upload_result_lost_with_connection"]
SHRINK = ["events"]
PA, PP = "4915160000001", "4915160000002"
JA, JP = PA + "@s.whatsapp.net", PP + "@s.whatsapp.net"
_S = {}


def setup():
    convo.setup_process()
    from checks import c03
    c03.setup()
    _S["c03"] = c03
    from axolotl.ecc.curve import Curve
    from axolotl.ecc.djbec import DjbECPublicKey
    from yowsup.axolotl.store.sqlite.liteaxolotlstore import LiteAxolotlStore
    _S.update(Curve=Curve, DjbECPublicKey=DjbECPublicKey, Store=LiteAxolotlStore)


def total(tier):
    return BUDGET[tier][0]


EVENTS = ["login", "login", "restart", "crash_next_login", "count_request", "count_request", "peer_first", "peer_first",
          "replay_first", "upload_error_next", "upload_lost_next", "upload_lost_next", "upload_hold_next", "upload_hold_next",
          "release_held", "release_held"]


def case(idx, tier, base):
    seed = base * (1 << 20) + idx
    r = stream(seed, "workload")
    ev = []
    for _ in range(r.randint(4, 20)):
        e = {"e": r.choice(EVENTS)}
        if e["e"] == "crash_next_login":
            e["at"] = r.randint(1, 60)
        ev.append(e)
    return {"seed": seed, "batch": r.randint(1, 15), "threshold": r.randint(1, 10), "events": ev}


def repair(case):
    return case if case.get("events") else None


class W(convo.World):
    PROP = "C14"

    def __init__(self, case):
        super(W, self).__init__(case["seed"], {"prekeys": case["batch"], "threshold": case["threshold"]})
        self.case = case
        self.ready = {}
        self.status = None
        self.a = self.add_client("A", PA)
        self.p = self.add_client("P", PP)
        self.server.low_mark = 0
        self.server.hooks.append(self.hook)
        self.next_upload_mode = "result"
        self.uploads = []       # {"ids":{id:pub}, "mode", "conn", "confirmed":bool|None}
        self.offered = {}       # id -> pub (bytes)
        self.confirmed = set()
        self.consumed = set()
        self.identity = None
        self.first_msgs = []    # stanzas of first messages delivered to A (for replay)
        self.delivered_tokens = {}
        self.tok = 0
        self.p_sessions = 0
        self.pending_firsts = []
        self.held_uploads = []
        self.in_limbo = []      # uploads whose result was sent; did the client process it?

    def on_app_entity(self, client, e):
        if e.getTag() == "success":
            S = convo.S()
            if not client.stack.getProp(S["YowAuthenticationProtocolLayer"].PROP_PASSIVE, False):
                self.ready[client.name] = True

    def on_app_event(self, client, ev):
        if ev.getName().endswith("network.disconnected"):
            self.ready[client.name] = False

    def on_app_message(self, client, e):
        if client is self.a:
            body = getattr(e, "getBody", lambda: None)()
            self.delivered_tokens[body] = self.delivered_tokens.get(body, 0) + 1

    def on_receive_exception(self, client, exc, tb):
        if client is self.a and "Sent keys were not accepted" in str(exc):
            return   # the library reports a rejected upload by raising; the connection is closed by the dispatcher
        self.client_error(client, "receive path", exc, tb)

    # ---------------------------------------------------------------- server behaviour for A's uploads
    def hook(self, server, cid, node):
        if node.tag != "iq" or node["xmlns"] != "encrypt" or node["type"] != "set" or server.conns[cid]["jid"] != JA:
            return False
        ids = {}
        for kn in node.child("list").children:
            ids[kn.child("id").data] = kn.child("value").data
        sk = node.child("skey")
        up = {"ids": ids, "mode": self.next_upload_mode, "identity": node.child("identity").data,
              "registration": node.child("registration").data,
              "skey": (sk.child("id").data, sk.child("value").data, sk.child("signature").data), "confirmed": None,
              "cid": cid, "iq_id": node["id"]}
        self.uploads.append(up)
        self.check_upload(up)
        mode = self.next_upload_mode
        self.next_upload_mode = "result"
        if mode == "result":
            up["confirmed"] = "sent"
            self.in_limbo.append(up)
            return False       # the server model stores the keys and answers with a result
        if mode == "held":
            # the result is delayed: further uploads may become outstanding meanwhile
            up["confirmed"] = None
            self.held_uploads.append((cid, node, up))
            return True
        if mode == "error":
            self.on_fault("upload_error", len(self.uploads), {})
            up["confirmed"] = False
            server.push(cid, server.iq_error(node, "406", "not-acceptable", frm="s.whatsapp.net"))
            return True
        self.on_fault("upload_connection_lost", len(self.uploads), {})
        up["confirmed"] = False
        # the keys reached the server but the result never reaches the client
        acc = server.account(JA)
        d = acc.keys or {"pre": []}
        d.update(identity=up["identity"], registration=up["registration"], type=b"\x05", skey=up["skey"])
        for kid, kv in ids.items():
            if kid in d.setdefault("handed", set()):
                continue
            d["pre"] = [x for x in d["pre"] if x[0] != kid]
            d["pre"].append((kid, kv))
        acc.keys = d
        self.server_close(self.a)
        return True

    def check_upload(self, up):
        S = _S
        # (5) shape + signature
        if self.identity is None:
            self.identity = up["identity"]
        if up["identity"] != self.identity:
            self.violate("upload/identity-changed", "an upload carries a different identity key than the first one")
        if len(up["identity"]) != 32:
            self.violate("upload/malformed-identity", "identity %d bytes" % len(up["identity"]))
        if self.a.alive and self.a.stack is not None:
            reg = self.a.stack.getProp("profile").axolotl_manager.registration_id
            if int.from_bytes(up["registration"], "big") != reg:
                self.violate("upload/wrong-registration-id", "upload carries %r, the account's registration id is %d"
                             % (up["registration"], reg))
        sid, sval, ssig = up["skey"]
        if len(sid) != 3 or len(sval) != 32 or len(ssig) != 64:
            self.violate("upload/malformed-signed-prekey", "id %d bytes, key %d bytes, signature %d bytes" % (len(sid), len(sval), len(ssig)))
        else:
            try:
                ok = S["Curve"].verifySignature(S["DjbECPublicKey"](bytes(up["identity"])), b"\x05" + bytes(sval), bytes(ssig))
            except Exception as e:  # noqa
                ok = False
            if not ok:
                self.violate("upload/signed-prekey-signature-invalid", "the signed prekey's signature does not verify under "
                             "the uploaded identity key")
            else:
                self.probe("signature_verified")
        for kid, kv in up["ids"].items():
            if len(kid) != 3 or len(kv) != 32:
                self.violate("upload/malformed-prekey", "id %r (%d bytes), key %d bytes" % (kid, len(kid), len(kv)))
            ik = int.from_bytes(kid, "big")
            if ik in self.offered and self.offered[ik] != kv:
                if ik in self.consumed:
                    # the id counter restarted after every local prekey had been consumed: a new key under an old id
                    self.violate("upload/id-reused-after-all-local-prekeys-were-consumed",
                                 "prekey id %d is offered again with a different public key; the earlier key with that id had "
                                 "been consumed and the local prekey table was empty when new keys were generated" % ik)
                    self.consumed.discard(ik)
                    self.confirmed.discard(ik)
                else:
                    self.violate("upload/id-reused-with-different-key", "prekey id %d was offered before with another public "
                                 "key that has not been consumed" % ik)
            if ik in self.confirmed:
                self.violate("upload/confirmed-key-offered-again", "prekey id %d: its upload was confirmed, yet it is offered again"
                             % ik)
            elif ik in self.offered:
                self.probe("unconfirmed_upload_reoffered")
            self.offered[ik] = kv

    # ---------------------------------------------------------------- store access
    def open_store(self):
        if self.a.alive and self.a.stack is not None:
            return self.a.stack.getProp("profile").axolotl_manager._store, False
        path = os.path.join(self.home, "yowsup", PA, "axolotl.db")
        if not os.path.exists(path):
            return None, False
        return _S["Store"](path), True

    def resolve_firsts(self):
        # a first message may reach A much later (A was offline): consumption is decided when it has been shown
        for kid, body in list(self.pending_firsts):
            if self.delivered_tokens.get(body, 0) >= 1:
                self.pending_firsts.remove((kid, body))
                self.consumed.add(kid)
                self.probe("prekey_consumed")
                for d, cid, n in reversed(self.server.log):
                    if d == "out" and n.tag == "message" and n["from"] == JP:
                        self.first_msgs.append((n, body))
                        break

    def check_store(self, when):
        self.resolve_firsts()
        store, mine = self.open_store()
        if store is None:
            return
        try:
            recs = store.loadPreKeys()
            ids = {p.getId(): bytes(p.getKeyPair().getPublicKey().serialize()[1:]) for p in recs}
            unsent = set(p.getId() for p in store.preKeyStore.loadUnsentPendingPreKeys())
        finally:
            if mine:
                from sim import sqlshim
                sqlshim.close_prefix(os.path.join(self.home, "yowsup", PA, "axolotl.db"))
        # resolve uploads in limbo (result sent by the server; did the client process it?)
        for limbo in self.in_limbo:
            lids = set(int.from_bytes(k, "big") for k in limbo["ids"]) & set(ids)
            sent = [i for i in lids if i not in unsent]
            if lids and len(sent) == len(lids):
                self.confirmed |= lids
            elif sent:
                self.violate("store/confirmation-partial", "%s: %d of %d keys of one confirmed upload are flagged uploaded%s"
                             % (when, len(sent), len(lids), " (after a crash during confirmation)" if self.crashed_since_limbo else ""))
            elif (limbo["cid"], "iq", limbo["iq_id"], "result") not in self.handed_to_stack:
                # the result was queued but the connection ended before it was delivered (e.g. the client's own reconnect
                # after an earlier upload result): the keys legitimately stay pending
                self.probe("upload_result_lost_with_connection")
            elif not self.crashed_since_limbo and self.a.alive and lids and self.a.cid is not None:
                # the result was delivered to a live client and processed, but the keys are still pending
                self.violate("store/confirmed-upload-still-pending", "%s: the server confirmed an upload of %d keys and the "
                             "client processed the result, yet they still count as pending upload" % (when, len(lids)))
        self.in_limbo = []
        want_unsent = set(ids) - self.confirmed
        if unsent != want_unsent:
            extra = sorted(unsent - want_unsent)
            missing = sorted(want_unsent - unsent)
            if extra:
                self.violate("store/confirmed-key-pending-again", "%s: prekeys %s count as pending upload although their "
                             "upload was confirmed" % (when, extra[:5]))
            else:
                self.violate("store/unconfirmed-key-marked-uploaded", "%s: prekeys %s are flagged uploaded although no upload "
                             "containing them was confirmed (uploads so far: %s)" % (when, missing[:5],
                             [(u["mode"], u["confirmed"], len(u["ids"])) for u in self.uploads]))
        for ik, pub in self.offered.items():
            if ik in self.consumed:
                if ik in ids:
                    self.violate("store/consumed-key-still-present", "%s: prekey %d was consumed by a first message but is still "
                                 "in the store" % (when, ik))
                continue
            if ik not in ids and any(k == ik for k, _ in self.pending_firsts):
                continue   # handed out, its first message is still on its way / being processed
            if ik not in ids:
                self.violate("store/offered-key-lost", "%s: prekey %d was offered to the server and never consumed, but is no "
                             "longer in the local store" % (when, ik))
            elif ids[ik] != pub:
                self.violate("store/offered-key-changed", "%s: prekey %d has a different public key locally than offered" % (when, ik))

    crashed_since_limbo = False

    # ---------------------------------------------------------------- script
    def settle(self):
        if not self.wait_quiescent(120):
            self.status = "stuck"
            return False
        return True

    def login(self, crash_at=None):
        a = self.a
        if a.alive and a.cid is not None:
            return
        if not a.alive:
            a.crash_plan = storage.CrashPlan(crash_at) if crash_at else None
            if crash_at:
                self.on_fault("crash_sql_boundary", crash_at, {})
                self.crashed_since_limbo = False
            a.start()
        else:
            a.post_op(lambda: a.app.connect())

    def release_held(self):
        """The delayed results are finally sent, oldest first (only on the connection they were asked on)."""
        held, self.held_uploads = self.held_uploads, []
        for cid, node, up in held:
            c = self.server.conns.get(cid)
            if c is None or not c["open"]:
                up["confirmed"] = False      # the connection is gone: the result can never arrive
                # the keys did reach the server
                acc = self.server.account(JA)
                d = acc.keys or {"pre": []}
                d.update(identity=up["identity"], registration=up["registration"], type=b"\x05", skey=up["skey"])
                for kid, kv in up["ids"].items():
                    if kid in d.setdefault("handed", set()):
                        continue
                    d["pre"] = [x for x in d["pre"] if x[0] != kid]
                    d["pre"].append((kid, kv))
                acc.keys = d
                continue
            up["confirmed"] = "sent"
            self.in_limbo.append(up)
            self.probe("two_uploads_outstanding" if len(held) > 1 else "delayed_upload_result")
            self.server.on_iq(cid, JA, node)
        self.kick_server()

    def director(self):
        c03 = _S["c03"]
        k = self.k
        self.p.start()
        if not self.wait_until(lambda: self.ready.get("P"), 120) or not self.settle():
            self.status = self.status or "stuck-at-login"
            return
        self.login()
        if not self.settle():
            return
        self.check_store("after the first login")
        crash_next = None
        for i, e in enumerate(self.case["events"]):
            if self.violations:
                break
            ev = e["e"]
            a = self.a
            if ev == "login":
                self.login(crash_next)
                crash_next = None
            elif ev == "restart":
                if a.alive:
                    self.on_fault("clean_restart", i, {})
                    self.ready["A"] = False
                    a.kill()
                    k.sleep(1.2)
                self.login(crash_next)
                crash_next = None
            elif ev == "crash_next_login":
                if a.alive:
                    self.ready["A"] = False
                    a.kill()
                    k.sleep(1.2)
                before_uploads = len(self.uploads)
                self.crashed_since_limbo = False
                self.login(e["at"])
                if not self.settle():
                    return
                if not a.alive:
                    self.crashed_since_limbo = True
                    if len(self.uploads) > before_uploads:
                        self.probe("crash_during_confirmation")
                    else:
                        self.probe("crash_during_generation")
                else:
                    a.crash_plan = None
            elif ev == "count_request":
                if a.alive and a.cid is not None:
                    self.server.mid += 1
                    self.server.to_jid(JA, Node("notification", {"from": "s.whatsapp.net", "id": "cnt-%d" % self.server.mid,
                                                                 "type": "encrypt", "t": "1700000000"},
                                                [Node("count", {"value": "0"})]))
                    self.kick_server()
                    self.probe("count_request_upload")
            elif ev in ("upload_error_next", "upload_lost_next"):
                self.next_upload_mode = "error" if ev == "upload_error_next" else "lost"
            elif ev == "upload_hold_next":
                self.next_upload_mode = "held"
            elif ev == "release_held":
                self.release_held()
            elif ev == "peer_first":
                acc = self.server.accounts.get(JA)
                if acc is not None and acc.keys and acc.keys["pre"] and self.ready.get("P"):
                    # a new peer identity each time: P forgets its session with A, so it fetches a fresh bundle
                    self.tok += 1
                    tok = self.tok
                    nh = len(self.handouts)

                    def op(tok=tok):
                        m = self.p.stack.getProp("profile").axolotl_manager
                        m._store.deleteAllSessions(PA)
                        m._session_ciphers.pop(PA, None)
                        ent, fields = c03.compose("text", JA, self.seed, tok)
                        self.pending_body = fields["conversation"]
                        self.p.app.toLower(ent)
                    self.p.post_op(op)
                    if not self.settle():
                        return
                    for hh in self.handouts[nh:]:
                        # (more than one when the first copy could not be decrypted and the peer fetched keys again)
                        self.pending_firsts.append((int.from_bytes(hh[1], "big"), self.pending_body))
            elif ev == "replay_first":
                if self.first_msgs and a.alive and a.cid is not None:
                    n, body = self.first_msgs[-1]
                    self.on_fault("srv_replay_first_message", n["id"], {})
                    self.server.to_jid(JA, n)
                    self.kick_server()
                    if not self.settle():
                        return
                    if self.delivered_tokens.get(body, 0) > 1:
                        self.violate("replay/consumed-prekey-established-second-session", "a replayed first message was shown "
                                     "to the application again")
                    else:
                        self.probe("replay_refused")
            if not self.settle():
                return
            self.check_store("after event %d (%s)" % (i, ev))
        if not self.violations and self.held_uploads:
            self.release_held()
            if self.settle():
                self.check_store("after releasing the delayed upload results")
        self.status = self.status or "done"

    def judge(self, kstatus):
        if self.status != "done" or kstatus != "finished":
            if not self.violations:
                self.violate("liveness/%s" % (self.status or kstatus), self.stuck_report())
            return
        if any(u["confirmed"] == "sent" for u in self.uploads) and self.confirmed:
            self.probe("confirmed_not_reoffered")


def run(case):
    w = W(case)
    try:
        ks = w.run()
        w.judge(ks)
    finally:
        w.finish()
    nt = (len(w.uploads) >= 2 and any(u["confirmed"] is False for u in w.uploads)) or bool(w.consumed) or bool(w.violations)
    return w.result(nt)
