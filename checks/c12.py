"""C12 — a failure while sending or receiving does not wedge the stack.

World W1-full: complete default stack + application double, real dispatcher over SimSocket, real
threads under the baton kernel.  After a stable login one operation in a sequence of sends and
receives is made to fail inside a chosen layer (natural faults where they exist — unencodable
value, oversized frame, garbage frame, undecodable stanza, handler rejecting a stanza, application
callback raising — and an injected exception at the send/receive entry of any layer).  Oracle:
the failure is reported (exception at the caller of send / dispatcher error path closes and
announces the connection down), no layer lock is held at the next quiescent point, every follow-up
send and incoming stanza (same task and another task, after the application's reconnect if the
connection was closed) completes within a virtual-time bound, nothing is stuck."""
from sim.rng import stream
from worlds import wire, fullwire
from doubles import refcodec as RC
from doubles.refcodec import Node

PROP = "C12"
LEVEL = "fault_enumeration"
RULE = ("case = failure site: injected exception at send or receive entry of each of the 9 layers of the default stack "
        "(18 sites) + natural faults (down: non-string attribute -> coder, frame far above and exactly at the 2^24 limit, a send "
        "while no session is ready; up: "
        "garbage Noise frame, undecodable stanza bytes, picture notification without set/delete, application callback raising) "
        "+ the upward failures at the coder and above once more under a receive driver that survives them (10 sites) x position "
        "of the failing operation after 0-3 good operations x follow-ups from the same task and from another task x 2-4 "
        "follow-up sends and incoming stanzas x dispatcher x scheduling; cases 0..287 enumerate site x position x follow-up "
        "thread once each, later cases draw from the same space with new schedules; distinct = distinct schedule+event "
        "digests; non-trivial = the fault fired and at least one follow-up operation was attempted afterwards")
COMPONENTS = {"real": ["whole default stack (YowLayer.toLower locks, YowParallelLayer, coder, noise incl. _flush_lock, segments, "
                       "network layer + dispatcher, axolotl layers, protocol layers, interface layer)", "YowStack.loop", "asyncore"],
              "stub": ["Noise responder + scripted stanza server", "SimSocket/select", "baton kernel", "application double that "
                       "reconnects after a connection loss", "instance-level wrappers raising an injected exception once"]}
ASSUMPTIONS = ["six 1.17 shim", "consonance randint(float) coerced", "an injected exception is raised at the entry of the chosen "
               "layer's send/receive (instance attribute wrapper), i.e. while the layers above (send) or below (receive) are "
               "inside their own toLower/receive calls"]
BUDGET = {"quick": (624, 170), "thorough": (100000, 2700)}
FAULTS = ["layer_exception_down", "layer_exception_up", "natural_down", "natural_up"]
PROBES = ["reported_to_caller", "reported_by_dispatcher_close", "reported_to_receive_caller", "followup_same_task", "followup_other_task", "reconnected_after_fault",
          "locks_free_after_fault"]
SHRINK = []
NATURAL = [("down", "nonstring_attribute"), ("down", "oversized_frame"), ("down", "frame_exactly_at_limit"), ("down", "session_not_ready"),
           ("up", "garbage_noise_frame"), ("up", "undecodable_stanza"),
           ("up", "picture_notification_without_set_or_delete"), ("up", "application_callback_raises")]
LAYER_NAMES = ["network", "segments", "noise", "coder", "logger", "axolotl_control", "axolotl_group", "protocol_group", "application"]
_S = {}


class SimInjected(Exception):
    pass


def setup():
    fullwire.setup_process()
    from yowsup.layers.protocol_presence.protocolentities import AvailablePresenceProtocolEntity, UnavailablePresenceProtocolEntity
    from yowsup.layers.protocol_chatstate.protocolentities import OutgoingChatstateProtocolEntity
    from yowsup.layers.protocol_acks.protocolentities import OutgoingAckProtocolEntity
    from yowsup.structs import ProtocolTreeNode
    _S.update(fullwire.S())
    _S.update(locals())


def _sites():
    out = []
    for li in range(9):
        for d in ("down", "up"):
            out.append({"dir": d, "kind": "injected", "layer": li})
    for d, k in NATURAL:
        out.append({"dir": d, "kind": k, "layer": None})
    # the same upward failures under a receive driver that survives them (reports the error and keeps the connection):
    # only there can "later incoming frames are processed normally" be observed on the same connection.  Restricted to
    # failures above the cipher: a frame lost below it desynchronises the stream by nature.
    for li in range(3, 9):
        out.append({"dir": "up", "kind": "injected", "layer": li, "tolerant": True})
    for d, k in NATURAL:
        if d == "up":
            out.append({"dir": d, "kind": k, "layer": None, "tolerant": True})
    return out


SITES = _sites()


def total(tier):
    return BUDGET[tier][0]


def case(idx, tier, base):
    seed = base * (1 << 20) + idx
    r = stream(seed, "workload")
    n = len(SITES)
    if idx < n * 4 * 2:
        site = SITES[idx % n]
        pre = (idx // n) % 4
        other = (idx // (n * 4)) % 2 == 1
    else:
        site = r.choice(SITES)
        pre = r.randint(0, 3)
        other = r.random() < 0.5
    sched = wire.draw_sched(r)
    net = wire.draw_net(r)
    net["short_send_p"] = 0.0
    net["lat"] = r.choice([[0.0001, 0.001], [0.0005, 0.02], [0.0, 0.0]])
    net["recv_cap"] = max(64, net["recv_cap"])
    return {"seed": seed, "site": site, "pre": pre, "post": r.randint(2, 4), "other_task": other,
            "dispatcher": "socket" if r.random() < 0.2 else "asyncore", "sched": sched, "net": net}


def simplify(case):
    s = case["sched"]
    if s.get("preempt") != "none" or s.get("policy") != "lowest":
        c = dict(case)
        c["sched"] = {"policy": "lowest", "sticky": 0.0, "preempt": "none", "p": 0.0}
        yield c
    if case["pre"]:
        c = dict(case)
        c["pre"] = 0
        yield c
    if case["post"] > 2:
        c = dict(case)
        c["post"] = 2
        yield c
    if case.get("dispatcher") != "asyncore":
        c = dict(case)
        c["dispatcher"] = "asyncore"
        yield c


class W(fullwire.FullWorld):
    def __init__(self, case):
        super(W, self).__init__(case["seed"], case["sched"], case["net"], dispatcher=case["dispatcher"], ping=0, reconnect=True,
                                max_time_s=2000)
        self.case = case
        self.site = case["site"]
        self.armed = False
        self.fired = 0
        self.logins = 0           # non-passive logins completed
        self.disc = 0
        self.got_ids = set()      # ids of follow-up/ordinary incoming stanzas that reached the application
        self.cb_raise = False
        self.sid = 0
        self.fault_reported = None
        # a failure below the Noise layer on the way down loses a frame that was already encrypted (its cipher counter is
        # spent): the peer cannot decrypt what follows and drops the connection; usable again means: after the reconnect
        self.doomed_connection = (self.site["dir"] == "down" and self.site["kind"] == "injected" and self.site["layer"] in (0, 1))
        self.app_exceptions = []
        self.dead_session = False
        self.stray_reported = False
        self.tolerant = bool(self.site.get("tolerant"))
        self.rx_errors = []

    def violate(self, sig, detail):
        super(W, self).violate("C12/" + sig, detail)

    def expect_wire_violation(self, c, e):
        # a real server drops a connection whose frames no longer decrypt; expected after a frame was lost below Noise
        if self.doomed_connection and self.fired > 0:
            return True
        if self.site["kind"] == "session_not_ready" and self.dead_session:
            # known finding F34, second face: the stanza encrypted with the dead session was not dropped but written to the
            # socket of the next connection, ahead of (or into) its prologue; the server drops that connection
            if not self.stray_reported:
                self.stray_reported = True
                self.violate("silently-dropped/%s/dead-session-still-installed/written-to-the-next-connection" % self.label(),
                             "connection %d: %s" % (c.no, e))
            return True
        return False

    def label(self):
        s = self.site
        t = "/surviving-receiver" if s.get("tolerant") else ""
        if s["kind"] == "injected":
            return "%s/injected@%s%s" % (s["dir"], LAYER_NAMES[s["layer"]], t)
        return "%s/%s%s" % (s["dir"], s["kind"], t)

    # ---------------------------------------------------------------- observers
    def on_app_entity(self, e):
        super(W, self).on_app_entity(e)
        if e.getTag() == "success":
            if not self.stack.getProp(_S["YowAuthenticationProtocolLayer"].PROP_PASSIVE, False):
                self.logins += 1
        if e.getTag() == "chatstate":
            # incoming follow-ups are chat state stanzas with a unique sender
            self.got_ids.add(e._from)
            if self.cb_raise:
                self.cb_raise = False
                self.fired += 1
                raise SimInjected("application callback raises")

    def on_app_event_pre(self, layer, ev):
        super(W, self).on_app_event_pre(layer, ev)
        short = ev.getName().split(".")[-1]
        if short == "disconnected":
            self.disc += 1
            if not layer.reconnect and not self.done and self.logins >= 1:
                # the application reconnects after losing its connection
                self.k.note("app reconnects")
                self.probe("reconnected_after_fault")
                layer.connect()

    # ---------------------------------------------------------------- fault machinery
    def arm_injected(self):
        layer = self.stack.getLayer(self.site["layer"])
        attr = "send" if self.site["dir"] == "down" else "receive"
        orig = getattr(layer, attr)
        w = self

        def wrapper(data):
            if w.armed:
                w.armed = False
                w.fired += 1
                w.k.note("FAULT fires", w.label())
                raise SimInjected("injected failure in %s.%s" % (LAYER_NAMES[w.site["layer"]], attr))
            return orig(data)

        setattr(layer, attr, wrapper)

    def arm_tolerant(self):
        """The dispatcher's receive callback reports a failure (to us) and carries on instead of closing."""
        orig = self.netlayer.onRecvData
        w = self

        def onRecvData(data):
            try:
                return orig(data)
            except Exception as e:  # noqa
                w.k.note("receive driver survives", type(e).__name__)
                w.rx_errors.append(e)

        self.netlayer.onRecvData = onRecvData

    def app_send(self, entity, expect_raise=False):
        """One application send; returns the exception (if any)."""
        try:
            self.app.send(entity)
            return None
        except SimInjected as e:
            return e
        except Exception as e:  # noqa
            return e

    def good_entity(self):
        S = _S
        self.sid += 1
        return S["OutgoingAckProtocolEntity"]("c12-%d" % self.sid, "receipt", "read", "4915170000099@s.whatsapp.net"), "c12-%d" % self.sid

    def server_conn(self):
        for c in reversed(self.conns):
            if c.transport and not c.dead:
                return c
        return None

    def incoming(self, tag):
        """Server sends one ordinary stanza; returns its unique marker."""
        self.sid += 1
        marker = "49151700%05d@s.whatsapp.net" % self.sid
        c = self.server_conn()
        if c is None:
            return None
        c.send(Node("chatstate", {"from": marker}, [Node("composing")]))
        return marker

    def server_decoded_ids(self):
        out = set()
        for c in self.conns:
            for n in c.decoded:
                if n["id"]:
                    out.add(n["id"])
        return out

    def do_good(self, i):
        """One good operation: alternately a send and an incoming stanza; waits for completion."""
        if i % 2 == 0:
            for attempt in (0, 1):
                ent, sid = self.good_entity()
                d0, l0 = self.disc, self.logins
                ex = self.app_send(ent)
                if ex is not None:
                    return "send raised %r" % (ex,)
                if self.wait_until(lambda: sid in self.server_decoded_ids() or self.disc > d0, 30) and sid in self.server_decoded_ids():
                    break
                if attempt == 0 and self.disc > d0 and self.doomed_connection:
                    # the failed operation lost an already encrypted frame: the peer dropped the connection at the next
                    # frame; the application has reconnected and sends again
                    if not self.wait_until(lambda: self.logins > l0 and self.server_conn() is not None, 120):
                        return "no new login after the peer dropped the connection"
                    self.k.sleep(0.3)
                    continue
                return "send %s did not reach the server within 30 virtual s" % sid
        else:
            m = self.incoming("chatstate")
            if m is None:
                return "no connection for an incoming stanza"
            if not self.wait_until(lambda: m in self.got_ids, 30):
                return "incoming stanza did not reach the application within 30 virtual s"
        return None

    def trigger_fault(self):
        S = _S
        site = self.site
        kind = site["kind"]
        if site["dir"] == "down" and kind == "session_not_ready":
            # the peer drops the connection; the application sends while there is no session (none at all, or the next
            # login still under way): either the send is refused with an error, or it is kept and goes out after the login
            c = self.server_conn()
            d0 = self.disc
            if c is None:
                self.violate("harness/no-connection", "no connection to drop")
                return
            c.close()
            self.wait_until(lambda: self.disc > d0, 40)
            ent, sid = self.good_entity()
            proto = getattr(self.noise, "_wa_noiseprotocol", None)
            dead_session = self.dead_session = (proto is not None and proto.state == "transport" and not self.netlayer.connected)
            ex = self.app_send(ent)
            self.fired += 1
            self.faults["natural_down"] = 1
            self.fault_reported = ex
            if ex is None:
                if not self.wait_until(lambda: sid in self.server_decoded_ids(), 150):
                    self.violate("silently-dropped/%s%s" % (self.label(), "/dead-session-still-installed" if dead_session else ""),
                                 "a send issued while no session was ready returned normally, but the stanza never reached the "
                                 "server after the next login%s; %s" % (
                                     " (the Noise layer still held the session of the lost connection: its DISCONNECTED "
                                     "announcement was still queued, the bytes were encrypted and dropped by the network layer)"
                                     if dead_session else "", self.stuck()))
                else:
                    self.probe("kept_until_session_ready")
            else:
                self.probe("reported_to_caller")
            return
        if site["dir"] == "down":
            if kind == "injected":
                self.armed = True
                ent, sid = self.good_entity()
            elif kind == "nonstring_attribute":
                ent = S["OutgoingAckProtocolEntity"]("c12-bad", "receipt", 5, "4915170000099@s.whatsapp.net")
                self.fired += 1
            elif kind == "frame_exactly_at_limit":
                # the smallest frame that must be refused: ciphertext (stanza + 16 byte tag) of exactly 2^24 bytes
                ent = _Big((1 << 24) - 16 - _big_overhead())
                self.fired += 1
            else:
                # oversized frame: a stanza whose encoding exceeds 16 MiB
                ent = _Big()
                self.fired += 1
            ex = self.app_send(ent)
            self.fault_reported = ex
            self.faults["layer_exception_down" if kind == "injected" else "natural_down"] = 1
            if ex is None:
                self.violate("not-reported/%s" % self.label(), "the failing send returned normally: the failure was not reported "
                             "to the caller")
            else:
                self.probe("reported_to_caller")
            return
        # ---- up
        c = self.server_conn()
        if c is None:
            self.violate("harness/no-connection", "no connection to deliver the failing stanza on")
            return
        d0 = self.disc
        self.faults["layer_exception_up" if kind == "injected" else "natural_up"] = 1
        if kind == "injected":
            self.armed = True
            self.incoming("chatstate")
        elif kind == "garbage_noise_frame":
            self.fired += 1
            from doubles.noise_server import frame
            self.net.server_send(c.conn, frame(b"\x13" * 40))
        elif kind == "undecodable_stanza":
            self.fired += 1
            c.r.send_frame(b"\x00\xf8\x03\xfc")     # list of 3, then a truncated string
            self.net.server_send(c.conn, c.r.take_out())
        elif kind == "picture_notification_without_set_or_delete":
            self.fired += 1
            c.send(Node("notification", {"from": "4915170000099@s.whatsapp.net", "id": "pn-1", "type": "picture", "t": "1", "notify": "x",
                                         "offline": "0"}, [Node("request", {"jid": "4915170000099@s.whatsapp.net"})]))
        else:
            self.cb_raise = True
            self.incoming("chatstate")
        if self.tolerant:
            if not self.wait_until(lambda: self.rx_errors, 40):
                if self.fired:
                    self.violate("not-reported/%s" % self.label(), "the failing incoming stanza raised nothing to the caller of "
                                 "the receive path within 40 virtual s; %s" % self.stuck())
            else:
                self.probe("reported_to_receive_caller")
            return
        # reported = the dispatcher's error path closes the connection and announces it down
        if not self.wait_until(lambda: self.disc > d0, 40):
            if self.fired:
                self.violate("not-reported/%s" % self.label(), "the failing incoming stanza neither raised to anybody nor made the "
                             "dispatcher close and announce the connection down within 40 virtual s; %s" % self.stuck())
        else:
            self.probe("reported_by_dispatcher_close")

    def stuck(self):
        return "blocked=%s errors=%s locks=%s" % (
            [(b["task"], b["on"]) for b in self.k.blocked_report() if b["task"] not in ("driver", "other")],
            [(n, repr(e)) for (n, e, tb) in self.k.errors][:3], self.locks_held())

    # ---------------------------------------------------------------- tasks
    def t_driver(self):
        k = self.k
        if not self.wait_until(lambda: self.logins >= 1, 120):
            self.violate("harness/no-login", self.stuck())
            self.finish_run()
            return
        k.sleep(0.2)
        if self.site["kind"] == "injected":
            self.arm_injected()
        if self.tolerant:
            self.arm_tolerant()
        for i in range(self.case["pre"]):
            err = self.do_good(i)
            if err:
                self.violate("harness/pre-operation-failed", err)
                self.finish_run()
                return
        logins0 = self.logins
        self.trigger_fault()
        # quiescent point: let everything settle, then look at the locks
        k.sleep(1.5)
        if (self.site["dir"] == "up" and not self.tolerant) or self.disc:
            # the connection was (or may have been) closed: the application reconnects; wait for the new login
            if self.disc and not self.wait_until(lambda: self.logins > logins0 and self.server_conn() is not None, 120):
                self.violate("wedged/no-relogin-after-failure/%s" % self.label(), "the connection was closed after the failure and "
                             "the application asked to reconnect, but no new login completed within 120 virtual s; %s" % self.stuck())
                self.finish_run()
                return
            k.sleep(0.5)
        held = self.locks_held()
        if held:
            self.violate("lock-held/%s" % self.label(), "at a quiescent point after the failure these locks are still held: %s" % held)
        else:
            self.probe("locks_free_after_fault")
        # follow-ups
        self.followup_err = None
        if self.case["other_task"]:
            self.other_go = True
            if not self.wait_until(lambda: self.other_done, 200):
                self.violate("wedged/follow-up-other-task/%s" % self.label(), "a follow-up operation issued by another task did not "
                             "complete within the bound: %s" % self.stuck())
            elif self.followup_err:
                self.violate("wedged/follow-up-other-task/%s" % self.label(), self.followup_err + "; " + self.stuck())
            else:
                self.probe("followup_other_task")
        else:
            self.run_followups()
            if self.followup_err:
                self.violate("wedged/follow-up-same-task/%s" % self.label(), self.followup_err + "; " + self.stuck())
            else:
                self.probe("followup_same_task")
        self.finish_run()

    other_go = False
    other_done = False

    def run_followups(self):
        for i in range(self.case["post"]):
            err = self.do_good(i)
            if err:
                self.followup_err = "follow-up %d: %s" % (i, err)
                return

    def t_other(self):
        k = self.k
        while not self.other_go:
            if self.done:
                return
            k.sleep(0.01)
        self.run_followups()
        self.other_done = True

    def finish_run(self):
        self.done = True
        self.k.finish()


class _Big(object):
    """An entity whose stanza does not fit a frame."""

    def __init__(self, n=1 << 24):
        self.n = n

    def getTag(self):
        return "ack"

    def toProtocolTreeNode(self):
        from yowsup.structs import ProtocolTreeNode
        return ProtocolTreeNode("ack", {"id": "big", "class": "receipt"}, None, b"\x00" * self.n)


def _big_overhead():
    """Encoded size of _Big's stanza minus its data length, measured with the coder layer's own encoder on a 2 MiB
    instance (same length-prefix class as near 16 MiB), cross-checked against the reference codec."""
    if "big_overhead" not in _S:
        from yowsup.layers.coder.encoder import WriteEncoder
        from yowsup.layers.coder.tokendictionary import TokenDictionary
        n = 1 << 21
        real = len(WriteEncoder(TokenDictionary()).protocolTreeNodeToBytes(_Big(n).toProtocolTreeNode())) - n
        ref = len(RC.encode(Node("ack", {"id": "big", "class": "receipt"}, None, b"\x00" * n))) - n
        assert real == ref, (real, ref)
        _S["big_overhead"] = real
    return _S["big_overhead"]


def run(case):
    w = W(case)
    w.build()
    k = w.k
    k.spawn(w.t_server, "server", daemon=True)
    k.spawn(w.t_main, "main")
    k.spawn(w.t_driver, "driver")
    k.spawn(w.t_other, "other")
    status = w.run()
    if status != "finished" and not w.violations:
        w.violate("wedged/%s/%s" % (status, w.label()), "kernel status %s: %s" % (status, w.stuck()))
    for (name, e, tb) in k.errors:
        if name in ("driver", "server", "other"):
            w.violate("harness-task:%s" % name, tb[-700:])
    w.finish()
    return w.result(w.fired > 0)
