"""C08 — request/response correlation: each reply reaches its request's callback exactly once.

World W2: account A (full stack) issues requests through the interface layer (application
callbacks) and through its own layers (key fetch, group info, provoked by sending to a new contact
or group; key upload at login); the server double holds the replies and releases them in a seeded
order as result / error / duplicated / unknown-id replies and non-reply stanzas carrying a live id.
Reference model: a sequential registry id -> pending request."""
from sim.rng import stream
from worlds import convo
from doubles.refcodec import Node

PROP = "C08"
LEVEL = "exploration"
RULE = ("case = 1-4 rounds, each with up to 6 outstanding requests drawn from application-level kinds (ping, last seen, "
        "picture get, privacy get, statuses get, set status, group list/info/participants/create/leave/subject/add/remove/"
        "promote/demote, contact sync) and library-internal kinds (key fetch via first message to a contact, group info via "
        "first message to a group) x reply mode per request (result, error, duplicated result, duplicated error, unknown "
        "id, non-reply stanza with the live id before the reply) x the sender the reply names (addressee, server domain, "
        "addressee's domain, another user: the id alone correlates) x seeded release order of the held replies; callbacks are "
        "counted by wrapping them at registration; distinct = distinct (requests, modes, order) digests; non-trivial = at "
        "least two requests were outstanding at once and were answered out of request order")
COMPONENTS = {"real": ["yowsup.layers.interface (YowInterfaceLayer._sendIq / processIqRegistry)", "yowsup.layers.YowProtocolLayer "
                       "(_sendIq / processIqRegistry)", "all protocol layers", "axolotl layers", "coder", "network layer"],
              "stub": ["server double holding and re-ordering replies", "reference registry model", "scheduler"]}
ASSUMPTIONS = ["six 1.17 shim", "actor assumption", "all optional modules are present (the module dimension is C06's)"]
BUDGET = {"quick": (800, 150), "thorough": (150000, 2700)}
FAULTS = ["srv_reply_reordered", "srv_dup_reply", "srv_unknown_id_reply", "srv_error_reply", "srv_nonreply_live_id",
          "srv_reply_from_server", "srv_reply_from_domain", "srv_reply_from_other"]
PROBES = ["out_of_order_replies", "error_callback", "success_callback", "internal_key_fetch", "internal_group_info",
          "dup_ignored", "unknown_ignored", "retry_from_error_callback"]
SHRINK = ["rounds"]
PA, PP = "4915130000001", "4915130000002"
JA, JP = PA + "@s.whatsapp.net", PP + "@s.whatsapp.net"
GJ = "4915130000001-1500000000@g.us"
GJ2 = "4915130000001-1500000001@g.us"
APP_KINDS = ["ping", "lastseen", "picture", "privacy", "statuses", "setstatus", "grouplist", "groupinfo",
             "create", "leave", "subject", "addp", "removep", "promote", "demote", "sync"]
MODES = ["result", "result", "result", "error", "error", "dup_result", "dup_error", "unknown_id", "nonreply_then_result",
         "error_then_result", "result_then_error", "error_retry"]
_S = {}


def setup():
    convo.setup_process()
    from yowsup.layers.protocol_iq.protocolentities import PingIqProtocolEntity
    from yowsup.layers.protocol_presence.protocolentities import LastseenIqProtocolEntity
    from yowsup.layers.protocol_profiles.protocolentities import GetPictureIqProtocolEntity, GetPrivacyIqProtocolEntity, \
        SetStatusIqProtocolEntity, GetStatusesIqProtocolEntity
    from yowsup.layers.protocol_groups.protocolentities import ListGroupsIqProtocolEntity, InfoGroupsIqProtocolEntity, \
        CreateGroupsIqProtocolEntity, LeaveGroupsIqProtocolEntity, SubjectGroupsIqProtocolEntity, \
        ParticipantsGroupsIqProtocolEntity, AddParticipantsIqProtocolEntity, RemoveParticipantsIqProtocolEntity, \
        PromoteParticipantsIqProtocolEntity, DemoteParticipantsIqProtocolEntity
    from yowsup.layers.protocol_contacts.protocolentities import GetSyncIqProtocolEntity
    from yowsup.layers.protocol_messages.protocolentities import TextMessageProtocolEntity
    _S.update(locals())


# the jid a reply names as its sender: the request's addressee (what an echoing server does), the bare server domain,
# the domain of the addressee (g.us answers for a group jid) or a different user jid; the id alone decides the callback
FROM_VARIANTS = ["addressee", "addressee", "addressee", "server", "domain", "other"]


def reply_from(variant, to):
    to = to or "s.whatsapp.net"
    if variant == "server":
        return "s.whatsapp.net"
    if variant == "domain":
        return to.split("@")[-1]
    if variant == "other":
        return "4915550001234@s.whatsapp.net"
    return to


def total(tier):
    return BUDGET[tier][0]


def case(idx, tier, base):
    seed = base * (1 << 20) + idx
    r = stream(seed, "workload")
    rf = stream(seed, "replyfrom")   # own substream: who the reply claims to come from (correlation is by id alone)
    rounds = []
    internal_left = ["keyfetch", "groupinfo_int"]
    for _ in range(r.randint(1, 4)):
        reqs = []
        for _ in range(r.randint(1, 6)):
            if internal_left and r.random() < 0.25:
                k = internal_left.pop(r.randrange(len(internal_left)))
                mode = r.choice(["result", "result", "error", "dup_result", "unknown_id", "error_then_result", "error_then_result"])
            else:
                k = r.choice(APP_KINDS)
                mode = r.choice(MODES)
            reqs.append({"kind": k, "mode": mode, "frm": rf.choice(FROM_VARIANTS)})
        order = list(range(len(reqs)))
        r.shuffle(order)
        rounds.append({"reqs": reqs, "order": order})
    return {"seed": seed, "rounds": rounds}


def repair(case):
    rs = [x for x in case.get("rounds", []) if x.get("reqs")]
    if not rs:
        return None
    out = []
    for x in rs:
        n = len(x["reqs"])
        order = [o for o in x["order"] if o < n]
        for i in range(n):
            if i not in order:
                order.append(i)
        out.append({"reqs": x["reqs"], "order": order})
    c = dict(case)
    c["rounds"] = out
    return c


def simplify(case):
    for ri, rd in enumerate(case["rounds"]):
        if len(rd["reqs"]) > 1:
            for drop in range(len(rd["reqs"])):
                c = dict(case)
                c["rounds"] = [dict(x) for x in case["rounds"]]
                reqs = [q for i, q in enumerate(rd["reqs"]) if i != drop]
                c["rounds"][ri] = {"reqs": reqs, "order": list(range(len(reqs)))}
                yield c
        for qi, q in enumerate(rd["reqs"]):
            if q["mode"] not in ("result", "error"):
                c = dict(case)
                c["rounds"] = [{"reqs": [dict(y) for y in x["reqs"]], "order": list(x["order"])} for x in case["rounds"]]
                c["rounds"][ri]["reqs"][qi]["mode"] = "error" if "error" in q["mode"] else "result"
                yield c


def mk_request(kind):
    S = _S
    if kind == "ping":
        return S["PingIqProtocolEntity"](to="s.whatsapp.net")
    if kind == "lastseen":
        return S["LastseenIqProtocolEntity"](JP)
    if kind == "picture":
        return S["GetPictureIqProtocolEntity"](JP)
    if kind == "privacy":
        return S["GetPrivacyIqProtocolEntity"]()
    if kind == "statuses":
        return S["GetStatusesIqProtocolEntity"]([JP])
    if kind == "setstatus":
        return S["SetStatusIqProtocolEntity"](b"yo")
    if kind == "grouplist":
        return S["ListGroupsIqProtocolEntity"]()
    if kind == "groupinfo":
        return S["InfoGroupsIqProtocolEntity"](GJ)
    if kind == "create":
        return S["CreateGroupsIqProtocolEntity"]("subj", participants=[JP])
    if kind == "leave":
        return S["LeaveGroupsIqProtocolEntity"]([GJ])
    if kind == "subject":
        return S["SubjectGroupsIqProtocolEntity"](GJ, b"new subject")
    if kind == "addp":
        return S["AddParticipantsIqProtocolEntity"](GJ, [JP])
    if kind == "removep":
        return S["RemoveParticipantsIqProtocolEntity"](GJ, [JP])
    if kind == "promote":
        return S["PromoteParticipantsIqProtocolEntity"](GJ, [JP])
    if kind == "demote":
        return S["DemoteParticipantsIqProtocolEntity"](GJ, [JP])
    if kind == "sync":
        return S["GetSyncIqProtocolEntity"](["+" + PP])
    raise ValueError(kind)


def result_children(kind):
    gid = GJ.split("@")[0]
    if kind == "lastseen":
        return [Node("query", {"seconds": "42"})]
    if kind == "picture":
        return [Node("picture", {"type": "preview", "id": "77"}, None, b"\x01\x02")]
    if kind == "privacy":
        return [Node("privacy", None, [Node("category", {"name": "last", "value": "all"})])]
    if kind == "statuses":
        return [Node("status", None, [Node("user", {"jid": JP, "t": "5"}, None, b"hi")])]
    if kind in ("grouplist", "participants"):
        return [Node("groups", None, [])]
    if kind in ("groupinfo", "groupinfo_int"):
        return [Node("group", {"subject": "s", "creation": "1", "creator": JA, "s_t": "1", "s_o": JA, "id": gid},
                     [Node("participant", {"jid": JA, "type": "admin"}), Node("participant", {"jid": JP})])]
    if kind == "create":
        return [Node("group", {"id": "4915130000001-1500000099", "creator": JA, "creation": "1", "subject": "subj", "s_t": "1",
                               "s_o": JA}, [Node("participant", {"jid": JA, "type": "admin"})])]
    if kind == "leave":
        return [Node("leave", None, [Node("group", {"id": GJ})])]
    if kind in ("addp", "removep"):
        return [Node("add" if kind == "addp" else "remove", {"type": "success", "participant": JP})]
    if kind == "sync":
        return [Node("sync", {"sid": "1", "index": "0", "last": "true", "version": "1", "wait": "0"},
                     [Node("in", None, [Node("user", {"jid": JP}, None, ("+" + PP).encode())])])]
    return []


class W(convo.World):
    PROP = "C08"

    def __init__(self, case):
        super(W, self).__init__(case["seed"], {"prekeys": 30, "threshold": 2})
        self.case = case
        self.ready = {}
        self.status = None
        self.a = self.add_client("A", PA)
        self.p = self.add_client("P", PP)
        self.server.groups[GJ] = {"creator": JA, "subject": "g", "participants": [JA, JP]}
        self.server.groups[GJ2] = {"creator": JA, "subject": "g2", "participants": [JA, JP]}
        self.server.low_mark = 0
        self.server.hooks.append(self.hook)
        self.capture = False
        self.held = []            # [request Node]
        self.calls = []           # (id, "ok"|"err", same_request_object, layer)
        self.model = {}           # id -> {"kind","req"}
        self.issued = []          # per round: [(id, kind, mode)]
        self.out_of_order = False

    def on_app_entity(self, client, e):
        if e.getTag() == "success":
            S = convo.S()
            if not client.stack.getProp(S["YowAuthenticationProtocolLayer"].PROP_PASSIVE, False):
                self.ready[client.name] = True

    def on_app_event(self, client, ev):
        if ev.getName().endswith("network.disconnected"):
            self.ready[client.name] = False

    # the server holds every iq request of A while capturing
    def hook(self, server, cid, node):
        if self.capture and node.tag == "iq" and node["type"] in ("get", "set") and server.conns[cid]["jid"] == JA:
            self.held.append(node)
            return True
        return False

    # ---------------------------------------------------------------- instrumentation (observation only)
    def wrap_internal(self):
        w = self
        layers = []
        st = self.a.stack
        layers.append(st.getLayer(2))
        layers.extend(st.getLayer(3).sublayers)
        for layer in layers:
            orig = layer._sendIq

            def wrapped(entity, onSuccess=None, onError=None, orig=orig, layer=layer):
                rid = entity.getId()
                w.registered_internal.setdefault(rid, {"req": entity, "layer": layer.__class__.__name__})

                w.registered_internal[rid]["has_err"] = onError is not None
                w.registered_internal[rid]["has_ok"] = onSuccess is not None

                def ok(node, req, onSuccess=onSuccess):
                    w.calls.append((rid, "ok", req is entity, "internal"))
                    return onSuccess(node, req)

                def err(node, req, onError=onError):
                    w.calls.append((rid, "err", req is entity, "internal"))
                    return onError(node, req)
                # observation only: a callback the library did not register stays unregistered
                return orig(entity, ok if onSuccess is not None else None, err if onError is not None else None)

            layer._sendIq = wrapped

    registered_internal = None

    # ---------------------------------------------------------------- script
    def app_request(self, kind, rec):
        req = mk_request(kind)
        rid = req.getId()
        rec["id"] = rid
        w = self
        self.model[rid] = {"kind": kind, "req": req}

        def ok(e, r):
            w.calls.append((rid, "ok", r is req, "app"))

        def ok2(e, r):
            w.calls.append((rid, "ok", r is req, "app-retry"))

        def err2(e, r):
            w.calls.append((rid, "err", r is req, "app-retry"))

        def err(e, r):
            w.calls.append((rid, "err", r is req, "app"))
            if rec["mode"] == "error_retry" and not rec.get("retried"):
                # the application tries the same request once more from inside its error callback
                rec["retried"] = True
                w.a.app._sendIq(req, ok2, err2)

        self.a.app._sendIq(req, ok, err)

    def director(self):
        S = _S
        k = self.k
        self.registered_internal = {}
        self.a.start()
        self.p.start()
        if not self.wait_until(lambda: self.ready.get("A") and self.ready.get("P"), 120):
            self.status = "stuck-at-login"
            return
        if not self.wait_quiescent(60):
            self.status = "stuck"
            return
        self.a.post_op(self.wrap_internal)
        for ri, rd in enumerate(self.case["rounds"]):
            if self.violations:
                break
            self.capture = True
            self.held = []
            recs = []
            for q in rd["reqs"]:
                rec = {"kind": q["kind"], "mode": q["mode"], "id": None, "frm": q.get("frm", "addressee")}
                recs.append(rec)
                if q["kind"] == "keyfetch":
                    before = set(self.registered_internal)
                    self.a.post_op(lambda: self.a.app.toLower(S["TextMessageProtocolEntity"]("first contact", to=JP)))
                    rec["internal"] = before
                elif q["kind"] == "groupinfo_int":
                    before = set(self.registered_internal)
                    self.a.post_op(lambda: self.a.app.toLower(S["TextMessageProtocolEntity"]("first group", to=GJ2)))
                    rec["internal"] = before
                else:
                    self.a.post_op(lambda q=q, rec=rec: self.app_request(q["kind"], rec))
            if not self.wait_quiescent(60):
                self.status = "stuck"
                return
            # resolve ids of internal requests
            for rec in recs:
                if "internal" in rec:
                    new = [i for i in self.registered_internal if i not in rec["internal"] and i not in self.model]
                    if new:
                        rec["id"] = new[0]
                        self.model[new[0]] = {"kind": rec["kind"], "req": self.registered_internal[new[0]]["req"]}
                        self.probe("internal_key_fetch" if rec["kind"] == "keyfetch" else "internal_group_info")
            held = {n["id"]: n for n in self.held}
            self.capture = False
            order = [o for o in rd["order"] if o < len(recs)]
            if order != sorted(order) and len(order) > 1:
                self.out_of_order = True
                self.on_fault("srv_reply_reordered", ri, {})
            for oi in order:
                rec = recs[oi]
                if rec["id"] is None or rec["id"] not in held:
                    continue
                self.release(rec, held[rec["id"]])
                if not self.wait_quiescent(60):
                    self.status = "stuck"
                    return
            # anything the stack asked for in the meantime (follow-up requests) is answered normally
            for n in self.held:
                if n["id"] not in [r["id"] for r in recs]:
                    self.server.on_iq(self.a.cid, JA, n)
            self.kick_server()
            if not self.wait_quiescent(60):
                self.status = "stuck"
                return
            self.issued.append(recs)
        self.status = "done"

    def reply(self, reqnode, kind, typ, rid=None):
        frm = reply_from(getattr(self, "cur_frm", "addressee"), reqnode["to"])
        rid = rid or reqnode["id"]
        if typ == "result":
            if kind == "keyfetch":
                # the genuine key result (valid bundle of P) built by the server model, possibly under another id
                self.server.on_iq(self.a.cid, JA, Node("iq", dict(reqnode.attrs, id=rid), reqnode.children))
                return
            n = Node("iq", {"type": "result", "from": frm, "id": rid}, result_children(kind))
        else:
            n = Node("iq", {"type": "error", "from": frm, "id": rid}, [Node("error", {"code": "404", "text": "item-not-found"})])
        self.server.to_jid(JA, n)

    def release(self, rec, reqnode):
        mode, kind = rec["mode"], rec["kind"]
        self.cur_frm = rec.get("frm", "addressee")
        if self.cur_frm != "addressee":
            self.on_fault("srv_reply_from_" + self.cur_frm, rec["id"], {})
        rec["delivered"] = []
        if mode == "nonreply_then_result":
            self.server.to_jid(JA, Node("ack", {"class": "receipt", "id": reqnode["id"], "from": "s.whatsapp.net"}))
            self.on_fault("srv_nonreply_live_id", rec["id"], {})
            self.reply(reqnode, kind, "result")
            rec["delivered"] = ["result"]
        elif mode == "unknown_id":
            self.reply(reqnode, kind, "result", rid="zz" + reqnode["id"])
            self.on_fault("srv_unknown_id_reply", rec["id"], {})
            self.kick_server()
            self.wait_quiescent(60)
            self.reply(reqnode, kind, "result")
            rec["delivered"] = ["result"]
        elif mode in ("error_then_result", "result_then_error"):
            first, second = mode.split("_then_")
            self.reply(reqnode, kind, first)
            self.kick_server()
            self.wait_quiescent(60)
            self.reply(reqnode, kind, second)
            self.on_fault("srv_dup_reply", rec["id"], {})
            rec["delivered"] = [first, second]
        elif mode == "error_retry":
            n0 = len(self.held)
            self.capture = True
            self.reply(reqnode, kind, "error")
            self.kick_server()
            self.wait_quiescent(60)
            self.capture = False
            rec["delivered"] = ["error"]
            again = [n for n in self.held[n0:] if n["id"] == reqnode["id"]]
            rec["retry_seen"] = len(again)
            if again:
                self.probe("retry_from_error_callback")
                self.reply(again[0], kind, "result")
        elif mode.startswith("dup_"):
            t = mode[4:]
            self.reply(reqnode, kind, t)
            self.reply(reqnode, kind, t)
            self.on_fault("srv_dup_reply", rec["id"], {})
            rec["delivered"] = [t, t]
        else:
            self.reply(reqnode, kind, mode)
            rec["delivered"] = [mode]
        if "error" in mode:
            self.on_fault("srv_error_reply", rec["id"], {})
        self.kick_server()

    # ---------------------------------------------------------------- oracle
    def judge(self, kstatus):
        if self.status != "done" or kstatus != "finished":
            if not self.violations:
                self.violate("liveness/%s" % (self.status or kstatus), self.stuck_report())
            return
        for recs in self.issued:
            for rec in recs:
                rid = rec["id"]
                if rid is None or "delivered" not in rec:
                    continue
                kind = rec["kind"]
                first = rec["delivered"][0]
                want = [("ok" if first == "result" else "err")]
                src = "internal" if kind in ("keyfetch", "groupinfo_int") else "app"
                if src == "internal":
                    reg = self.registered_internal.get(rid, {})
                    if (want[0] == "err" and not reg.get("has_err", True)) or (want[0] == "ok" and not reg.get("has_ok", True)):
                        want = []   # the library registered no callback for this reply type: nothing may run
                got = [(c[1], c[2]) for c in self.calls if c[0] == rid and c[3] == src]
                label = "%s/%s" % (kind, "error-reply" if first == "error" else "result-reply")
                if [g[0] for g in got] != want:
                    if not want:
                        self.violate("callback-for-replayed-reply/%s" % label, "request %s id=%s (mode %s): no callback is "
                                     "registered for the first reply, yet callbacks ran: %s" % (kind, rid, rec["mode"], got))
                    elif not got:
                        self.violate("callback-not-invoked/%s" % label, "request %s id=%s (mode %s): the reply was delivered "
                                     "but neither callback of the request ran (expected %s once)" % (kind, rid, rec["mode"], want[0]))
                    elif len(got) > 1:
                        self.violate("callback-invoked-twice/%s" % label, "request %s id=%s (mode %s): callbacks ran %s"
                                     % (kind, rid, rec["mode"], got))
                    else:
                        self.violate("wrong-callback/%s" % label, "request %s id=%s: %s callback ran for a %s reply"
                                     % (kind, rid, got[0][0], first))
                elif rec["mode"] == "error_retry" and src == "app":
                    again = [(c[1], c[2]) for c in self.calls if c[0] == rid and c[3] == "app-retry"]
                    if rec.get("retry_seen") != 1:
                        self.violate("retry/request-not-sent/%s" % kind, "request %s id=%s: the application re-sent the request "
                                     "from its error callback, the server saw %s copies of it" % (kind, rid, rec.get("retry_seen")))
                    elif [g[0] for g in again] != ["ok"]:
                        self.violate("retry/callback-%s/%s" % ("not-invoked" if not again else "wrong", kind),
                                     "request %s id=%s re-sent from its error callback and answered with a result: callbacks of the "
                                     "second registration ran %s (expected the result callback once)" % (kind, rid, again))
                    else:
                        self.probe("error_callback")
                elif not want:
                    self.probe("dup_ignored")
                elif not got[0][1]:
                    self.violate("callback-without-original-request/%s" % label, "request %s id=%s: the callback did not get "
                                 "the original request object" % (kind, rid))
                else:
                    self.probe("success_callback" if want[0] == "ok" else "error_callback")
                    if rec["mode"].startswith("dup"):
                        self.probe("dup_ignored")
                    if rec["mode"] == "unknown_id":
                        self.probe("unknown_ignored")
        known = set(self.model)
        for c in self.calls:
            if c[3] == "app" and c[0] not in known:
                self.violate("callback-for-unknown-id", "a callback ran for id %s that no request carries" % c[0])
        if self.out_of_order:
            self.probe("out_of_order_replies")


def run(case):
    w = W(case)
    try:
        ks = w.run()
        w.judge(ks)
    finally:
        w.finish()
    return w.result(w.out_of_order or bool(w.violations))
