"""C05 — frame segmentation: any chunking of the byte stream yields the original frames.

World: the real YowNoiseSegmentsLayer between two recording layers inside a real YowStack.
The "network" is the simulator's chunker: it decides where the byte stream is cut (the scheduling
dimension of this property); the oracle runs after every delivered chunk."""
import struct

from sim.rng import stream

PROP = "C05"
LEVEL = "exploration"
RULE = ("case = frame-size sequence + content seed + chunk partitions of the concatenated stream; "
        "'exh' cases enumerate ALL 2^(L-1) partitions of every stream of <=14 bytes built from <=3 frames, "
        "'rand' cases draw 1-8 frames (sizes incl. 1,2,3,4,255,256,1024,65535,65536,70000) and 24 seeded "
        "partitions biased to cuts inside the 3-byte header (every tenth of them on a layer object whose previous connection "
        "was lost at an arbitrary byte, followed by CONNECTED), 'down' cases check outgoing framing incl. the "
        "2^24 refusal; distinct = distinct (frame sizes, partition) digests; non-trivial = at least one cut "
        "falls strictly inside a frame (header or payload)")
COMPONENTS = {"real": ["yowsup.layers.noise.layer_noise_segments.YowNoiseSegmentsLayer", "yowsup.stacks.YowStack",
                       "yowsup.layers.YowLayer"],
              "stub": ["network chunker (simulator)", "recording layers above and below"]}
ASSUMPTIONS = ["six 1.17 shim on sys.path (pinned six 1.10 cannot import protobuf on CPython 3.12)",
               "single-threaded component run: the layer has no state shared across threads; the same oracle "
               "also runs passively inside every wire-world run (C04/C11/C16)"]
BUDGET = {"quick": (1200, 60), "thorough": (200000, 1200)}
FAULTS = ["tcp_cut_in_header", "tcp_cut_in_payload", "tcp_coalesce"]
PROBES = ["cut_inside_header", "frame_ge_64k", "one_byte_chunks", "oversize_refused", "connection_lost_inside_frame"]
SHRINK = ["frames", "partitions"]
EXHAUSTIVE = {"quick": False, "thorough": False}

_S = {}
SIZES = [1, 2, 3, 4, 255, 256, 1024, 65535, 65536, 70000]


def setup():
    from yowsup.layers import YowLayer
    from yowsup.layers.noise.layer_noise_segments import YowNoiseSegmentsLayer
    from yowsup.stacks import YowStack

    class Rec(YowLayer):
        def __init__(self):
            super(Rec, self).__init__()
            self.up = []
            self.down = []

        def receive(self, data):
            self.up.append(data)

        def send(self, data):
            self.down.append(data)

    _S["Rec"] = Rec
    _S["Seg"] = YowNoiseSegmentsLayer
    _S["Stack"] = YowStack


def _exh_streams():
    out = []
    for s1 in range(1, 12):
        out.append([s1])
    for s1 in range(1, 8):
        for s2 in range(1, 9 - s1):
            out.append([s1, s2])
    for s1 in range(1, 4):
        for s2 in range(1, 5 - s1):
            for s3 in range(1, 6 - s1 - s2):
                out.append([s1, s2, s3])
    return [s for s in out if sum(s) + 3 * len(s) <= 14]


_EXH = _exh_streams()


def total(tier):
    return BUDGET[tier][0]


def case(idx, tier, base):
    seed = base * (1 << 20) + idx
    if idx < len(_EXH):
        return {"seed": seed, "kind": "exh", "frames": _EXH[idx]}
    r = stream(seed, "workload")
    if idx % 10 == 9:
        n = r.randint(1, 5)
        sizes = [r.choice([1, 2, 3, 255, 256, 65535, 65536, 100000, r.randint(1, 3000)]) for _ in range(n)]
        if r.random() < 0.15:
            sizes.append(r.choice([16777215, 16777216, 16777217]))
        return {"seed": seed, "kind": "down", "frames": sizes}
    n = r.randint(1, 8)
    sizes = []
    for _ in range(n):
        sizes.append(r.choice(SIZES) if r.random() < 0.5 else r.randint(1, r.choice([8, 300, 5000])))
    first = None
    if idx % 10 == 8:
        # the same layer object serves a second connection after the first one was lost at an arbitrary byte
        fs = [r.choice([1, 2, 3, 4, 255, 256, 1024]) if r.random() < 0.5 else r.randint(1, 300) for _ in range(r.randint(1, 4))]
        first = {"frames": fs, "cut": r.random(), "chunks": r.randint(1, 4)}
    total_len = sum(sizes) + 3 * n
    starts = []
    p = 0
    for s in sizes:
        starts.append(p)
        p += 3 + s
    parts = []
    for _ in range(24):
        mode = r.random()
        cuts = set()
        if mode < 0.15:
            if total_len <= 4000:
                cuts = set(range(1, total_len))
        elif mode < 0.6:
            for st in starts:
                for off in (0, 1, 2, 3, 4):
                    if 0 < st + off < total_len and r.random() < 0.4:
                        cuts.add(st + off)
        k = r.randint(0, 12)
        for _ in range(k):
            if total_len > 1:
                cuts.add(r.randint(1, total_len - 1))
        parts.append(sorted(cuts))
    c = {"seed": seed, "kind": "rand", "frames": sizes, "partitions": parts}
    if first is not None:
        c["first"] = first
        c["partitions"] = parts[:8]
    return c


def _mk():
    Rec, Seg, Stack = _S["Rec"], _S["Seg"], _S["Stack"]
    st = Stack((Rec, Seg, Rec), reversed=False)
    st.setProp(Seg.PROP_ENABLED, True)
    return st, st.getLayer(0), st.getLayer(1), st.getLayer(2)


def _content(seed, sizes):
    r = stream(seed, "content")
    return [r.randbytes(s) for s in sizes]


def _check_partition(frames, data, cuts, boundaries, world=None):
    """Feed one partition (into a fresh stack, or into `world` = a stack that has seen an earlier connection);
    returns None or (kind, detail)."""
    st, bottom, seg, top = world or _mk()
    base = len(top.up)
    pos = 0
    nfr = 0
    for c in list(cuts) + [len(data)]:
        chunk = data[pos:c]
        pos = c
        bottom.toUpper(chunk)
        while nfr < len(frames) and boundaries[nfr] <= pos:
            nfr += 1
        got = top.up[base:]
        if len(got) > nfr:
            extra = got[nfr]
            if nfr < len(frames) and bytes(extra) == frames[nfr]:
                return ("early", "frame %d handed up after %d bytes, before it was complete" % (nfr, pos))
            return ("extra", "after %d bytes %d frames were handed up, only %d complete" % (pos, len(got), nfr))
        for i, g in enumerate(got):
            if bytes(g) != frames[i]:
                return ("corrupt", "frame %d differs: got %d bytes %r..., want %d bytes %r..."
                        % (i, len(g), bytes(g)[:8], len(frames[i]), frames[i][:8]))
        if len(got) < nfr:
            return ("missing", "after %d bytes (cuts %s) only %d of %d complete frames were handed up"
                    % (pos, list(cuts)[:10], len(got), nfr))
    if bottom.down:
        return ("extra", "receive path wrote %d items downward" % len(bottom.down))
    return None


def _first_connection(case, viol, probes):
    """A stack whose segments layer has already served a connection that was lost at an arbitrary byte; the next
    connection has been announced (CONNECTED) and nothing of the old stream may influence the new one."""
    from yowsup.layers import YowLayerEvent
    from yowsup.layers.network import YowNetworkLayer
    f = case["first"]
    frames1 = _content(case["seed"] + 1, f["frames"])
    data1 = b"".join(struct.pack(">I", len(x))[1:] + x for x in frames1)
    cut = max(1, min(len(data1) - 1, int(f["cut"] * len(data1)))) if len(data1) > 1 else 1
    st, bottom, seg, top = world = _mk()
    r = stream(case["seed"], "first")
    pts = sorted(set(r.randint(1, cut) for _ in range(f["chunks"] - 1))) + [cut]
    pos = 0
    for c in pts:
        if c > pos:
            bottom.toUpper(data1[pos:c])
            pos = c
    # complete frames of the prefix must have been delivered
    done = 0
    p = 0
    for x in frames1:
        p += 3 + len(x)
        if p <= cut:
            done += 1
    if [bytes(g) for g in top.up] != frames1[:done]:
        viol.append({"sig": "C05/up/first-connection", "detail": "first connection: %d frames delivered, %d complete in the "
                                                                 "first %d bytes" % (len(top.up), done, cut)})
    p = 0
    inside = True
    for x in frames1:
        if p == cut:
            inside = False
        p += 3 + len(x)
    if inside and cut != len(data1):
        probes["connection_lost_inside_frame"] = probes.get("connection_lost_inside_frame", 0) + 1
    bottom.emitEvent(YowLayerEvent(YowNetworkLayer.EVENT_STATE_CONNECTED))
    return world


def run(case):
    import hashlib
    sizes = case["frames"]
    faults = {"tcp_cut_in_header": 0, "tcp_cut_in_payload": 0, "tcp_coalesce": 0}
    probes = {"cut_inside_header": 0, "frame_ge_64k": 0, "one_byte_chunks": 0, "oversize_refused": 0}
    viol = []
    h = hashlib.sha256(repr((case["kind"], sizes)).encode())
    nontrivial = False
    evals = 0
    if case["kind"] == "down":
        st, bottom, seg, top = _mk()
        r = stream(case["seed"], "content")
        for i, s in enumerate(sizes):
            payload = bytes(bytearray(s)) if s > 200000 else r.randbytes(s)
            before = len(bottom.down)
            try:
                top.toLower(payload)
                raised = False
            except ValueError:
                raised = True
            except Exception as e:  # noqa
                viol.append({"sig": "C05/down/exception:%s" % type(e).__name__, "detail": repr(e)})
                break
            wrote = b"".join(bytes(x) for x in bottom.down[before:])
            if s >= 1 << 24:
                if not raised:
                    viol.append({"sig": "C05/down/oversize-accepted",
                                 "detail": "payload of %d bytes was accepted; wrote %d bytes, header %r"
                                           % (s, len(wrote), wrote[:3])})
                elif wrote:
                    viol.append({"sig": "C05/down/oversize-partial-write",
                                 "detail": "refused payload still wrote %d bytes" % len(wrote)})
                else:
                    probes["oversize_refused"] += 1
            else:
                if raised:
                    viol.append({"sig": "C05/down/refused-valid", "detail": "payload of %d bytes refused" % s})
                elif wrote != struct.pack(">I", s)[1:] + payload:
                    viol.append({"sig": "C05/down/bad-frame",
                                 "detail": "size %d: wrote %d bytes, header %r" % (s, len(wrote), wrote[:3])})
            if s >= 65536:
                probes["frame_ge_64k"] += 1
            h.update(b"%d:%d;" % (s, len(wrote)))
        if top.up:
            viol.append({"sig": "C05/down/extra-up", "detail": "send path handed data upward"})
        nontrivial = True
        return {"violations": viol[:1], "nontrivial": nontrivial, "digest": h.hexdigest()[:16], "faults": faults,
                "probes": probes, "steps": len(sizes), "vtime": 0.0}
    frames = _content(case["seed"], sizes)
    data = b"".join(struct.pack(">I", len(f))[1:] + f for f in frames)
    boundaries = []
    p = 0
    for f in frames:
        p += 3 + len(f)
        boundaries.append(p)
    L = len(data)
    hdr_pos = set()
    p = 0
    for f in frames:
        hdr_pos.update((p + 1, p + 2))
        p += 3 + len(f)
    bset = set(boundaries)

    def account(cuts):
        inside = False
        for c in cuts:
            if c in hdr_pos:
                faults["tcp_cut_in_header"] += 1
                probes["cut_inside_header"] += 1
                inside = True
            elif c not in bset:
                faults["tcp_cut_in_payload"] += 1
                inside = True
        # frames that share a chunk with a neighbour
        prev = 0
        for c in list(cuts) + [L]:
            if sum(1 for b in boundaries if prev < b <= c) > 1 or any(prev < b < c for b in boundaries):
                faults["tcp_coalesce"] += 1
            prev = c
        return inside

    if case["kind"] == "exh":
        n = L - 1
        for mask in range(1 << n):
            cuts = [i + 1 for i in range(n) if mask >> i & 1]
            evals += 1
            if account(cuts):
                nontrivial = True
            bad = _check_partition(frames, data, cuts, boundaries)
            if bad:
                viol.append({"sig": "C05/up/%s" % bad[0], "detail": "frames %s cuts %s: %s" % (sizes, cuts, bad[1])})
                break
        probes["one_byte_chunks"] += 1
        h.update(b"all-partitions")
    else:
        for cuts in case.get("partitions", []):
            cuts = [c for c in cuts if 0 < c < L]
            evals += 1
            if account(cuts):
                nontrivial = True
            if len(cuts) == L - 1 and L > 1:
                probes["one_byte_chunks"] += 1
            h.update(repr(cuts[:64]).encode())
            world = None
            if case.get("first"):
                world = _first_connection(case, viol, probes)
                if viol:
                    break
            bad = _check_partition(frames, data, cuts, boundaries, world)
            if bad:
                viol.append({"sig": "C05/up/%s" % bad[0],
                             "detail": "frames %s cuts %s: %s" % (sizes, cuts[:20], bad[1])})
                break
        if any(s >= 65536 for s in sizes):
            probes["frame_ge_64k"] += 1
    return {"violations": viol[:1], "nontrivial": nontrivial, "digest": h.hexdigest()[:16], "faults": faults,
            "probes": probes, "steps": evals, "vtime": 0.0}


def repair(case):
    if not case.get("frames"):
        return None
    if case["kind"] == "rand":
        if not case.get("partitions"):
            return None
    return case
