"""C15 — media encryption: lossless round-trip, tamper detection, WhatsApp-compatible layout.

World W6 (blob channel): sender encrypts -> the blob is stored/transferred -> receiver decrypts.
Parties are yowsup's MediaCipher and the independent doubles/media_ref.py in all four pairings.
The fault injector owns the blob in transit: every single-byte corruption position (3 bit
patterns), every truncation length, wrong key, wrong media kind.  There is no scheduling
dimension in this property (stated in the evidence)."""
import hashlib

from sim.rng import stream

PROP = "C15"
LEVEL = "fault_enumeration"
RULE = ("case = (media kind, 32-byte key from seed, plaintext length, content seed); lengths 0..64 x 4 kinds are "
        "enumerated first (260 cases), then seeded larger lengths (block-aligned and not, up to 1 MiB); within a case the "
        "fault-free configuration runs first (4 sender/receiver pairings of yowsup and reference, byte-identical "
        "ciphertext), then every fault: each byte position x {0x01,0x80,0xff} flips (all positions up to 4 KiB of blob, "
        "seeded 600 positions beyond), every truncation length (same bound), 20 extension lengths after and before the tag, wrong key, the 3 wrong kinds; "
        "distinct = distinct (kind,len,key) digests; non-trivial = at least one fault was applied to a blob")
COMPONENTS = {"real": ["yowsup.layers.protocol_media.mediacipher.MediaCipher (encrypt/decrypt and the per-kind wrappers)",
                       "axolotl HKDFv3", "cryptography AES-CBC"],
              "stub": ["blob channel with fault injector (simulator)", "independent reference cipher doubles/media_ref.py"]}
ASSUMPTIONS = ["six 1.17 shim on sys.path", "no scheduling/time dimension: single task, faults on the blob only",
               "a 10-byte MAC collision (2^-80) is treated as impossible"]
BUDGET = {"quick": (700, 120), "thorough": (30000, 2700)}
FAULTS = ["blob_flip", "blob_truncate", "blob_extend", "wrong_key", "wrong_kind"]
PROBES = ["aligned_length", "empty_plaintext", "large_blob", "interop_pairs"]
SHRINK = []
EXHAUSTIVE = {"quick": False, "thorough": False}
KINDS = ["image", "audio", "video", "document"]
_S = {}


def setup():
    from yowsup.layers.protocol_media.mediacipher import MediaCipher
    from doubles import media_ref
    _S["MC"] = MediaCipher
    _S["ref"] = media_ref


def total(tier):
    return BUDGET[tier][0]


def case(idx, tier, base):
    seed = base * (1 << 20) + idx
    if idx < 260:
        return {"seed": seed, "kind": KINDS[idx % 4], "len": idx // 4}
    r = stream(seed, "workload")
    c = r.random()
    if c < 0.4:
        n = 16 * r.randint(5, 300)
    elif c < 0.8:
        n = r.randint(65, 5000)
    elif c < 0.95:
        n = r.choice([65536, 65537, 100000, 99984])
    else:
        n = r.choice([1 << 20, (1 << 20) - 5])
    return {"seed": seed, "kind": r.choice(KINDS), "len": n}


def simplify(case):
    if case["len"] > 0:
        for n in (0, case["len"] // 2, case["len"] - 1, case["len"] - case["len"] % 16):
            if 0 <= n < case["len"]:
                c = dict(case)
                c["len"] = n
                yield c


def _y_enc(mc, kind, p, k):
    return getattr(mc, "encrypt_" + kind)(p, k)


def _y_dec(mc, kind, b, k):
    return getattr(mc, "decrypt_" + kind)(b, k)


def run(case):
    ref = _S["ref"]
    mc = _S["MC"]()
    kind = case["kind"]
    n = case["len"]
    r = stream(case["seed"], "content")
    key = r.randbytes(32)
    plain = r.randbytes(n)
    faults = {"blob_flip": 0, "blob_truncate": 0, "blob_extend": 0, "wrong_key": 0, "wrong_kind": 0}
    probes = {"aligned_length": 1 if n % 16 == 0 and n else 0, "empty_plaintext": 1 if n == 0 else 0,
              "large_blob": 1 if n >= 65536 else 0, "interop_pairs": 0}
    viol = []
    cls = "empty" if n == 0 else ("aligned" if n % 16 == 0 else "unaligned")

    def v(sig, detail):
        if not any(x["sig"] == sig for x in viol):
            viol.append({"sig": sig, "detail": "%s len=%d: %s" % (kind, n, detail)})

    # ---- fault-free configuration: 2x2 interop
    blob_ref = ref.encrypt(plain, key, kind)
    try:
        blob_y = bytes(_y_enc(mc, kind, plain, key))
    except Exception as e:  # noqa
        v("C15/encrypt-raises/%s" % cls, repr(e))
        blob_y = None
    if blob_y is not None:
        if blob_y != blob_ref:
            v("C15/interop/ciphertext-differs/%s" % cls,
              "yowsup produced %d bytes, the reference (always-padded AES-CBC) %d bytes" % (len(blob_y), len(blob_ref)))
        for name, blob in (("yowsup", blob_y), ("reference", blob_ref)):
            # receiver = yowsup
            try:
                got = _y_dec(mc, kind, blob, key)
                if bytes(got) != plain:
                    v("C15/roundtrip/wrong-plaintext/%s->yowsup/%s" % (name, cls),
                      "decrypt returned %d bytes, original %d" % (len(got), n))
            except Exception as e:  # noqa
                v("C15/roundtrip/raises/%s->yowsup/%s" % (name, cls), "decrypting an untampered blob raised %r" % (e,))
            # receiver = reference (a WhatsApp client)
            try:
                got = ref.decrypt(blob, key, kind)
                if got != plain:
                    v("C15/interop/%s->reference/wrong-plaintext/%s" % (name, cls), "%d bytes vs %d" % (len(got), n))
            except ref.MediaError as e:
                v("C15/interop/%s->reference/rejected/%s" % (name, cls), "a standard client rejects the blob: %s" % e)
            probes["interop_pairs"] += 2
    # ---- faults on the blob in transit (receiver = yowsup); the blob is the reference one so that the
    #      fault dimension is judged independently of the sender-side finding above
    blob = blob_ref
    L = len(blob)
    if L <= 4096:
        positions = range(L)
        cuts = range(L)
    else:
        pr = stream(case["seed"], "faults")
        positions = sorted(set([0, 1, 15, 16, L - 27, L - 26, L - 11, L - 10, L - 9, L - 1] +
                               [pr.randrange(L) for _ in range(600)]))
        cuts = sorted(set([0, 1, 9, 10, 11, 16, 26, L - 17, L - 16, L - 11, L - 10, L - 9, L - 1] +
                          [pr.randrange(L) for _ in range(200)]))

    def must_reject(b, k, kd, what, sigkind):
        try:
            got = _y_dec(mc, kd, b, k)
        except Exception:
            return
        rel = "the original" if bytes(got) == plain else "a different"
        v("C15/tamper-accepted/%s" % sigkind, "%s: decrypt returned %s plaintext (%d bytes) instead of an error"
          % (what, rel, len(got)))

    for p in positions:
        for mask in (0x01, 0x80, 0xFF):
            b = bytearray(blob)
            b[p] ^= mask
            faults["blob_flip"] += 1
            must_reject(bytes(b), key, kind, "byte %d of %d xor %#x" % (p, L, mask),
                        "flip-tag" if p >= L - 10 else "flip-ciphertext")
    for c in cuts:
        faults["blob_truncate"] += 1
        must_reject(blob[:c], key, kind, "truncated to %d of %d bytes" % (c, L), "truncate")
    # bytes appended to / inserted into the blob (1..17, 31, 32, 33 extra bytes; arbitrary and "looks like more ciphertext")
    er = stream(case["seed"], "extend")
    for extra in list(range(1, 18)) + [31, 32, 33]:
        tail = er.randbytes(extra)
        faults["blob_extend"] += 1
        must_reject(blob + tail, key, kind, "%d bytes appended after the tag" % extra, "extend")
        faults["blob_extend"] += 1
        must_reject(blob[:-10] + tail + blob[-10:], key, kind, "%d bytes inserted before the tag" % extra, "extend")
    wk = bytearray(key)
    wk[case["seed"] % 32] ^= 0x10
    faults["wrong_key"] += 1
    must_reject(blob, bytes(wk), kind, "wrong key", "wrong-key")
    for other in KINDS:
        if other != kind:
            faults["wrong_kind"] += 1
            must_reject(blob, key, other, "decrypted as %s" % other, "wrong-kind")
    # ---- one long-lived cipher object used for a seeded sequence of operations over 2 keys x 4 kinds (an
    #      application keeps one MediaCipher around): every result is compared with the reference, so state carried
    #      from one call into the next (caches keyed too coarsely, leftovers of a failed call) shows
    sr = stream(case["seed"], "session")
    key2 = sr.randbytes(32)
    small = plain[:200]
    mc2 = _S["MC"]()
    for step in range(14):
        k = key if sr.random() < 0.6 else key2
        kd = sr.choice(KINDS)
        if sr.random() < 0.4:
            try:
                got = bytes(_y_enc(mc2, kd, small, k))
                if got != ref.encrypt(small, k, kd):
                    v("C15/session/encrypt-differs", "step %d of a sequence on one cipher object: encrypt_%s differs from the "
                      "reference (state carried over from an earlier call)" % (step, kd))
            except Exception as e:  # noqa
                v("C15/session/encrypt-raises", "step %d: %r" % (step, e))
        else:
            mk, mkd = (k, kd) if sr.random() < 0.5 else (sr.choice([key, key2]), sr.choice(KINDS))
            b = ref.encrypt(small, mk, mkd)
            try:
                got = _y_dec(mc2, kd, b, k)
                if (mk, mkd) != (k, kd):
                    faults["wrong_kind" if mk == k else "wrong_key"] += 1
                    v("C15/session/tamper-accepted/%s" % ("wrong-kind" if mk == k else "wrong-key"),
                      "step %d of a sequence on one cipher object: a blob made for (%s) was decrypted as %s without error"
                      % (step, mkd, kd))
                elif bytes(got) != small:
                    v("C15/session/wrong-plaintext", "step %d" % step)
            except Exception as e:  # noqa
                if (mk, mkd) == (k, kd):
                    v("C15/session/valid-blob-rejected", "step %d of a sequence on one cipher object: a genuine %s blob was "
                      "rejected: %r" % (step, kd, e))
                else:
                    faults["wrong_kind" if mk == k else "wrong_key"] += 1
    h = hashlib.sha256(("%s/%d/" % (kind, n)).encode() + key).hexdigest()[:16]
    return {"violations": viol, "nontrivial": True, "digest": h, "faults": faults, "probes": probes,
            "steps": sum(faults.values()), "vtime": 0.0}
