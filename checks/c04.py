"""C04 — encrypted transport: handshake succeeds, frames flow intact and in order.

World W1: real YowNetworkLayer (+ real asyncore/socket dispatcher over SimSocket), real
YowNoiseSegmentsLayer, YowNoiseLayer (+ real consonance handshake worker thread), YowCoderLayer and
YowAuthenticationProtocolLayer; a recording layer next to the auth layer plays the application the
way YowInterfaceLayer does (reconnects from inside the DISCONNECTED event).  The peer is the Noise
responder double + reference codec.  Scheduling, chunking, latency and faults are simulator-owned."""
import binascii
import os

from sim.rng import stream, rbytes
from worlds import wire
from doubles import refcodec as RC

PROP = "C04"
LEVEL = "exploration"
RULE = ("case = handshake variant (XX / IK / IK->XXfallback) x config (edge routing, mcc/mnc, pushname, passive) x "
        "dispatcher x 1-4 connection attempts (each with an optional cut: refused, close on accept, close/stall after "
        "ClientHello, close after ServerHello, client disconnect before/during/after handshake, server close in "
        "transport; or a corrupted ServerHello) x generated stanza sequences both ways x TCP chunking/latency/recv-cap "
        "x scheduling policy and pre-emption mode; the last attempt is always complete. distinct = distinct "
        "schedule+wire trace digests; non-trivial = the final attempt reached transport and at least one "
        "post-handshake frame flowed in each scripted direction")
COMPONENTS = {"real": ["yowsup.layers.network (layer + asyncore/socket dispatcher)", "yowsup.layers.noise.layer",
                       "yowsup.layers.noise.workers.handshake (thread)", "yowsup.layers.noise.layer_noise_segments",
                       "yowsup.layers.coder", "yowsup.layers.auth.layer_authentication", "yowsup.stacks.YowStack",
                       "yowsup.profile/config (write_config)", "consonance 0.1.5", "dissononce", "asyncore", "transitions"],
              "stub": ["Noise responder + stanza server (doubles/noise_server.py)", "reference codec (doubles/refcodec.py)",
                       "TCP network, sockets, select (sim/net.py)", "threads/locks/queues/clock (sim/kernel.py, sim/sync.py)",
                       "application layer double (recording, reconnect-on-disconnected)"]}
ASSUMPTIONS = ["six 1.17 shim on sys.path (pinned six 1.10 cannot import protobuf on CPython 3.12)",
               "consonance's randint(float, float) is coerced to int by the RNG seam (TypeError on 3.12 otherwise)",
               "the profile directory exists (in a full client the key store creates it)",
               "context switches happen at simulated primitives and at PEP-669 LINE/PY_START events of "
               "yowsup/consonance/asyncore code; C extension calls are atomic",
               "Noise primitives of dissononce are shared by client and responder double"]
BUDGET = {"quick": (8000, 170), "thorough": (200000, 2700)}
FAULTS = ["tcp_cut", "tcp_coalesce", "connect_refused", "peer_fin", "rst", "short_send", "srv_bad_serverhello",
          "srv_close_after_hello", "srv_frames_behind_hello", "client_disconnect_in_handshake"]
PROBES = ["variant_XX", "variant_IK", "variant_XXfallback", "config_rewritten", "frame_queued_while_handshake",
          "stale_worker_at_next_attempt", "login_failure_reported", "big_stanza", "reconnect_after_cut", "worker_died", "login_settings_changed_between_attempts"]
SHRINK = ["attempts"]
STATE_MEASURE = "abstract state = (attempt no, server stage, noise protocol state, #blocked handshake workers, queue length bucket)"

PHONE = "4915112345678"
CUTS = [None, None, None, "refused", "close_on_accept", "close_after_hello", "stall_after_hello_client_disc",
        "close_after_server_hello", "client_disc_on_connected", "client_disc_in_transport",
        "server_close_in_transport", "rst_in_transport"]
RESERVED_TAGS = ("success", "failure", "stream:error", "stream:features", "iq")
_S = {}


def setup():
    wire.setup_process()
    from yowsup.layers import YowLayer, YowLayerEvent, YowParallelLayer
    from yowsup.layers.network import YowNetworkLayer
    from yowsup.layers.auth import YowAuthenticationProtocolLayer
    from yowsup.layers.noise.layer import YowNoiseLayer
    from yowsup.layers.noise.layer_noise_segments import YowNoiseSegmentsLayer
    from yowsup.layers.coder import YowCoderLayer
    from yowsup.stacks import YowStack
    _S.update(locals())

    class Probe(YowLayer):
        """Application double next to the auth layer."""
        world = None

        def __init__(self):
            super(Probe, self).__init__()
            self.world = Probe.world

        def receive(self, node):
            self.world.on_top_receive(node)

        def send(self, data):
            self.toLower(data)

        def onEvent(self, ev):
            return self.world.on_top_event(self, ev)

    _S["Probe"] = Probe


def total(tier):
    return BUDGET[tier][0]


def case(idx, tier, base):
    seed = base * (1 << 20) + idx
    r = stream(seed, "workload")
    variant = ["XX", "IK", "FB"][idx % 3]
    natt = r.choice([1, 1, 2, 2, 3, 4])
    if idx % 4 == 3:
        # a quarter of the cases are tiny (one login, one or two frames right behind the ServerHello, hardly anything sent):
        # few steps per run, so that a single well-placed context switch (handshake completing while the network thread
        # is between two statements) is hit with a useful probability
        tr = stream(seed, "tiny")
        n_s2c = tr.choice([1, 1, 2])
        att = {"cut": None, "corrupt": False, "early": n_s2c, "s2c": [{"i": i, "big": None} for i in range(n_s2c)],
               "c2s": [{"i": 10 + i, "big": None} for i in range(tr.choice([0, 1]))], "cut_after": 0}
        sched = dict(tr.choice([{"policy": "demote", "sticky": 0.0, "preempt": "line", "p": 0.01},
                                {"policy": "demote", "sticky": 0.0, "preempt": "line", "p": 0.03},
                                {"policy": "random", "sticky": 0.9, "preempt": "line", "p": 0.1},
                                {"policy": "demote", "sticky": 0.0, "preempt": "call", "p": 0.1}]))
        net = {"lat": tr.choice([[0.0, 0.0], [0.0001, 0.001]]), "piece": tr.choice([[4096, 65536], [16, 1024], [1, 64]]),
               "recv_cap": 1024, "short_send_p": 0.0}
        cfg = {"edge": None, "mcc": None, "mnc": None, "pushname": None, "passive": False, "fdid": None}
        return {"seed": seed, "variant": variant, "cfg": cfg, "sched": sched, "net": net,
                "dispatcher": "socket" if tr.random() < 0.25 else "asyncore", "attempts": [att], "tiny": True}
    attempts = []
    sid = 0
    for a in range(natt):
        last = a == natt - 1
        cut = None if last else r.choice(CUTS[3:])
        if not last and r.random() < 0.15:
            cut = None
        corrupt = (not last) and cut is None and r.random() < 0.6
        n_s2c = r.choice([0, 1, 3, 8, 20])
        n_c2s = r.choice([0, 1, 3, 8, 20])
        if last:
            n_s2c = max(n_s2c, 1)
            n_c2s = max(n_c2s, 1)
        s2c, c2s = [], []
        for _ in range(n_s2c):
            big = None
            x = r.random()
            if x < 0.01:
                big = "data"
            elif x < 0.03:
                big = "list"
            elif x < 0.10:
                big = "mid"
            s2c.append({"i": sid, "big": big})
            sid += 1
        for _ in range(n_c2s):
            big = None
            x = r.random()
            if x < 0.01:
                big = "data"
            elif x < 0.03:
                big = "list"
            elif x < 0.10:
                big = "mid"
            c2s.append({"i": sid, "big": big})
            sid += 1
        att = {"cut": cut, "corrupt": corrupt, "early": r.choice([0, 0, 1, 3, len(s2c)]),
               "s2c": s2c, "c2s": c2s, "cut_after": r.randint(0, 5)}
        if attempts and r.random() < 0.5:
            # the application (or the library's own passive/active switch) changes what the next login presents
            ch = {}
            if r.random() < 0.7:
                ch["passive"] = r.random() < 0.5
            if r.random() < 0.3:
                ch["pushname"] = r.choice([None, "me", "other", "J\xfcrgen \u2603"])
            if r.random() < 0.2:
                ch["mcc"] = r.choice([None, "262", "310"])
                ch["mnc"] = r.choice([None, "01", "260"])
            if ch:
                att["cfg"] = ch
        attempts.append(att)
    cfg = {"edge": binascii.hexlify(rbytes(r, r.choice([1, 8, 40, 300]))).decode() if r.random() < 0.4 else None,
           "mcc": r.choice([None, "262", "310"]), "mnc": r.choice([None, "01", "260"]),
           "pushname": r.choice([None, "me", "J\xfcrgen ☃"]), "passive": r.random() < 0.3,
           "fdid": r.choice([None, "aaaa-bbbb"])}
    net = wire.draw_net(r)
    net["short_send_p"] = 0.0   # client-side short sends are C11's fault space, not C04's
    bigs = set(d.get("big") for a in attempts for d in a["s2c"] + a["c2s"])
    if "data" in bigs:
        net["recv_cap"] = 1024
        net["piece"] = [4096, 65536]
    elif "mid" in bigs or "list" in bigs:
        net["recv_cap"] = max(net["recv_cap"], 64)
    return {"seed": seed, "variant": variant, "cfg": cfg, "sched": wire.draw_sched(r), "net": net,
            "dispatcher": "socket" if r.random() < 0.25 else "asyncore", "attempts": attempts}


def repair(case):
    att = case.get("attempts") or []
    if not att:
        return None
    att = [dict(a) for a in att]
    att[-1]["cut"] = None
    att[-1]["corrupt"] = False
    if not att[-1]["s2c"] and not att[-1]["c2s"]:
        return None
    c = dict(case)
    c["attempts"] = att
    return c


def simplify(case):
    s = case["sched"]
    if s.get("preempt") != "none" or s.get("policy") != "lowest":
        c = dict(case)
        c["sched"] = {"policy": "lowest", "sticky": 0.0, "preempt": "none", "p": 0.0}
        yield c
    if s.get("preempt") == "line":
        c = dict(case)
        c["sched"] = dict(s, preempt="call")
        yield c
    if s.get("preempt") != "none":
        c = dict(case)
        c["sched"] = dict(s, preempt="none", p=0.0)
        yield c
    n = case["net"]
    if n.get("short_send_p"):
        c = dict(case)
        c["net"] = dict(n, short_send_p=0.0)
        yield c
    if n.get("lat") != [0.0, 0.0]:
        c = dict(case)
        c["net"] = dict(n, lat=[0.0, 0.0])
        yield c
    if n.get("piece") != [4096, 65536]:
        c = dict(case)
        c["net"] = dict(n, piece=[4096, 65536], recv_cap=1024)
        yield c
    if case["cfg"].get("edge"):
        c = dict(case)
        c["cfg"] = dict(case["cfg"], edge=None)
        yield c
    if case.get("dispatcher") != "asyncore":
        c = dict(case)
        c["dispatcher"] = "asyncore"
        yield c
    for ai, a in enumerate(case["attempts"]):
        for key in ("s2c", "c2s"):
            lst = a[key]
            if len(lst) > 1:
                for part in (lst[:len(lst) // 2], lst[len(lst) // 2:]):
                    c = dict(case)
                    c["attempts"] = [dict(x) for x in case["attempts"]]
                    c["attempts"][ai][key] = part
                    yield c
            elif len(lst) == 1 and (len(a["s2c"]) + len(a["c2s"]) > 1 or ai < len(case["attempts"]) - 1):
                c = dict(case)
                c["attempts"] = [dict(x) for x in case["attempts"]]
                c["attempts"][ai][key] = []
                yield c
        if a.get("early"):
            c = dict(case)
            c["attempts"] = [dict(x) for x in case["attempts"]]
            c["attempts"][ai]["early"] = 0
            yield c


# ------------------------------------------------------------------------------------------ world
def success_node(att_no):
    return RC.Node("success", {"t": str(att_no), "props": "1", "location": "atn", "creation": "1"})


class Session(object):
    """Server side of one connection (= one attempt)."""

    def __init__(self, w, conn, att_no):
        from doubles.noise_server import NoiseResponder
        self.w = w
        self.conn = conn
        self.no = att_no
        self.att = w.attempts[att_no] if att_no < len(w.attempts) else {"cut": None, "corrupt": False, "early": 0, "s2c": [], "c2s": [], "cut_after": 0}
        self.r = NoiseResponder(w.server_key, corrupt_hello=bool(self.att.get("corrupt")))
        self.hello_seen = False
        self.transport_seen = False
        self.sent = []        # s2c Nodes handed to the wire, in order
        self.decoded = []     # c2s Nodes decoded, in order
        self.dead = False
        self.up = wire.FrameChecker()
        self.s2c_queue = [wire.gen_stanza(w.seed, d["i"], d.get("big")) for d in self.att["s2c"]]
        for n in self.s2c_queue:
            if n.tag in RESERVED_TAGS:
                n.tag = "x" + n.tag
        self.stored_rs = w.current_rs_state()

    def on_accept(self):
        if self.att["cut"] == "close_on_accept":
            self.close()

    def close(self, rst=False):
        if not self.dead:
            self.dead = True
            self.w.net.server_close(self.conn, rst=rst)

    def send_node(self, n):
        self.sent.append(n)
        if n.data is not None and len(n.data) >= (1 << 20) or len(n.children) > 255:
            self.w.probe("big_stanza")
        self.r.send_frame(RC.encode(n))

    def flush(self):
        out = self.r.take_out()
        if out and not self.dead:
            self.w.net.server_send(self.conn, out)

    def on_bytes(self, data):
        from doubles.noise_server import ProtocolViolation
        w = self.w
        if self.dead:
            return
        self.up.feed(data)
        try:
            self.r.feed(data)
        except ProtocolViolation as e:
            w.violate("C04/wire/%s" % _slug(str(e)), "attempt %d: server rejects the client's bytes: %s" % (self.no, e))
            self.close()
            return
        r = self.r
        cut = self.att["cut"]
        if not self.hello_seen and r.stage != "hello" and r.stage != "prologue":
            self.hello_seen = True
            w.k.note("srv: client hello attempt", self.no, r.variant)
            self._check_prologue()
            if cut == "close_after_hello":
                r.out = []
                w.faults["srv_close_after_hello"] = w.faults.get("srv_close_after_hello", 0) + 1
                self.close()
                return
            if cut == "stall_after_hello_client_disc":
                r.out = []
                r.stage = "dead"
                self.dead = True
                return
            if self.att.get("corrupt"):
                w.faults["srv_bad_serverhello"] = w.faults.get("srv_bad_serverhello", 0) + 1
                self.flush()
                return
            if cut == "close_after_server_hello":
                self.flush()
                self.close()
                return
        if r.stage == "transport" and not self.transport_seen:
            self.transport_seen = True
            w.k.note("srv: transport attempt", self.no, r.variant)
            w.probe("variant_" + r.variant)
            self._check_login()
            early = self.att.get("early", 0)
            self.send_node(success_node(self.no))
            k = 0
            while self.s2c_queue and k < early:
                self.send_node(self.s2c_queue.pop(0))
                k += 1
            if early and r.variant == "IK":
                w.faults["srv_frames_behind_hello"] = w.faults.get("srv_frames_behind_hello", 0) + 1
            self.flush()
            self._pump()
        else:
            self.flush()
        while r.rx:
            raw = r.rx.pop(0)
            try:
                n = RC.decode(raw)
            except Exception as e:  # noqa
                w.violate("C04/c2s/undecodable", "attempt %d: frame %d from the client is not a valid stanza: %r"
                          % (self.no, len(self.decoded), e))
                continue
            self.decoded.append(n)
            w.on_server_stanza(self, n)

    def _pump(self):
        """Send the remaining scripted stanzas in small bursts spread over virtual time."""
        w = self.w
        if self.dead or self.conn.server_closed:
            return
        cut = self.att["cut"]
        burst = w.srv_rng.choice([1, 1, 2, 5])
        while self.s2c_queue and burst > 0:
            self.send_node(self.s2c_queue.pop(0))
            burst -= 1
            if cut in ("server_close_in_transport", "rst_in_transport") and len(self.sent) > self.att.get("cut_after", 0):
                self.flush()
                self.close(rst=(cut == "rst_in_transport"))
                return
        self.flush()
        if self.s2c_queue:
            w.k.call_later(w.srv_rng.choice([0.0, 0.001, 0.05]), self._pump)
        elif cut in ("server_close_in_transport", "rst_in_transport"):
            self.close(rst=(cut == "rst_in_transport"))

    def _check_prologue(self):
        w = self.w
        want = binascii.unhexlify(w.cfg["edge"]) if w.cfg.get("edge") else None
        if self.r.routing_info != want:
            w.violate("C04/login/routing-info", "attempt %d: edge routing info on the wire %r, configured %r"
                      % (self.no, self.r.routing_info, want))
        exp = {"none": "XX", "current": "IK", "stale": "XXfallback"}[self.stored_rs]
        if self.r.variant is not None and self.r.variant != exp:
            w.violate("C04/login/variant", "attempt %d: stored server key is %s, expected %s handshake, client started %s"
                      % (self.no, self.stored_rs, exp, self.r.variant))

    def _check_login(self):
        w = self.w
        from yowsup.env import YowsupEnv
        e = YowsupEnv.getCurrent()
        try:
            cp = self.r.payload()
        except Exception as ex:  # noqa
            w.violate("C04/login/payload-unparsable", repr(ex))
            return
        cfg = w.cfg_by_attempt[self.no] if self.no < len(w.cfg_by_attempt) else w.cfg
        if self.no < len(w.attempts) and w.attempts[self.no].get("cfg"):
            w.probe("login_settings_changed_between_attempts")
        ver = [int(x) for x in e.getVersion().split(".")]
        got = {"username": cp.username, "passive": cp.passive, "push_name": cp.push_name,
               "mcc": cp.user_agent.mcc, "mnc": cp.user_agent.mnc, "phone_id": cp.user_agent.phone_id,
               "platform": cp.user_agent.platform, "os_version": cp.user_agent.os_version,
               "manufacturer": cp.user_agent.manufacturer, "device": cp.user_agent.device,
               "version": [cp.user_agent.app_version.primary, cp.user_agent.app_version.secondary,
                           cp.user_agent.app_version.tertiary, cp.user_agent.app_version.quaternary]}
        want = {"username": int(PHONE), "passive": bool(cfg["passive"]), "push_name": cfg["pushname"] or "yowsup",
                "mcc": cfg["mcc"] or "000", "mnc": cfg["mnc"] or "000", "phone_id": cfg["fdid"] or "",
                "platform": 0, "os_version": e.getOSVersion(), "manufacturer": e.getManufacturer(),
                "device": e.getDeviceName(), "version": ver}
        for key in want:
            if got[key] != want[key]:
                w.violate("C04/login/field-%s" % key, "attempt %d: server decrypted %s=%r, configured %r"
                          % (self.no, key, got[key], want[key]))
        if self.r.client_static != w.client_pub:
            w.violate("C04/login/client-static", "server authenticated a different client static key")


def _slug(s):
    out = []
    for ch in s.lower():
        if ch.isalnum():
            out.append(ch)
        elif out and out[-1] != "-":
            out.append("-")
    return "".join(out)[:48].strip("-")


class W(wire.World):
    def __init__(self, case):
        super(W, self).__init__(case["seed"], case["sched"], case["net"], max_time_s=900,
                                decisions=case.get("decisions"))
        self.case = case
        self.cfg = case["cfg"]
        self.cfg_by_attempt = []
        eff = dict(self.cfg)
        for att in case["attempts"]:
            eff = dict(eff, **(att.get("cfg") or {}))
            self.cfg_by_attempt.append(eff)
        self.attempts = case["attempts"]
        self.srv_rng = stream(case["seed"], "server")
        self.sessions = []
        self.top_rx = {}          # attempt no -> [Node]
        self.top_events = []      # (attempt no, event name)
        self.app_sent = {}        # attempt no -> [Node] submitted without exception
        self.app_errors = []
        self.failure_count = 0
        self.hs_failed_count = 0
        self.owner = {}
        for ai, a in enumerate(case["attempts"]):
            for d in a["s2c"] + a["c2s"]:
                self.owner[d["i"]] = ai
        self.disconnected = 0
        self.connected = 0
        self.done = False
        self.states = set()
        self.stale_workers = 0

    # ---------------------------------------------------------------- set-up
    def build(self):
        S = _S
        from yowsup.profile.profile import YowProfile
        from yowsup.config.v1.config import Config
        from consonance.structs.keypair import KeyPair as CK
        from consonance.structs.publickey import PublicKey as CPub
        from consonance.structs.privatekey import PrivateKey as CPriv
        from doubles.noise_server import keypair_from_private
        kr = stream(self.seed, "statics")
        self.server_key = keypair_from_private(rbytes(kr, 32))
        old = keypair_from_private(rbytes(kr, 32))
        cli = keypair_from_private(rbytes(kr, 32))
        self.client_pub = bytes(cli.public.data)
        self.server_pub = bytes(self.server_key.public.data)
        v = self.case["variant"]
        rs = None if v == "XX" else CPub(self.server_pub if v == "IK" else bytes(old.public.data))
        cfg = self.cfg
        conf = Config(phone=PHONE, client_static_keypair=CK(CPub(cli.public.data), CPriv(cli.private.data)),
                      server_static_public=rs, mcc=cfg["mcc"], mnc=cfg["mnc"], pushname=cfg["pushname"],
                      fdid=cfg["fdid"],
                      edge_routing_info=binascii.unhexlify(cfg["edge"]) if cfg.get("edge") else None)
        os.makedirs(os.path.join(self.cfg_home, "yowsup", PHONE), exist_ok=True)
        S["Probe"].world = self
        layers = (S["YowNetworkLayer"], S["YowNoiseSegmentsLayer"], S["YowNoiseLayer"], S["YowCoderLayer"],
                  S["YowParallelLayer"]((S["YowAuthenticationProtocolLayer"], S["Probe"])))
        st = S["YowStack"](layers, reversed=False)
        self.profile = YowProfile(PHONE, conf)
        st.setProfile(self.profile)
        st.setProp(S["YowAuthenticationProtocolLayer"].PROP_PASSIVE, bool(cfg["passive"]))
        st.setProp(S["YowNetworkLayer"].PROP_DISPATCHER,
                   S["YowNetworkLayer"].DISPATCHER_SOCKET if self.case.get("dispatcher") == "socket"
                   else S["YowNetworkLayer"].DISPATCHER_ASYNCORE)
        self.stack = st
        self.noise = st.getLayer(2)
        self.netlayer = st.getLayer(0)
        self.probe_layer = st.getLayer(4).sublayers[1]
        plan = []
        for a in self.attempts:
            plan.append("refused" if a["cut"] == "refused" else "ok")
        self.net.connect_plan = plan

    def current_rs_state(self):
        rs = self.profile.config.server_static_public
        if rs is None:
            return "none"
        return "current" if bytes(rs.data) == self.server_pub else "stale"

    def attempt_no(self):
        return max(0, self.net.connect_count - 1)

    # ---------------------------------------------------------------- observation points
    def on_top_receive(self, node):
        n = RC.from_ptn(node)
        self.k.note("top rx", n.tag, n["id"] or n["t"])
        if n.tag == "failure":
            self.failure_count += 1
            return
        a = self.owner_of(n)
        self.top_rx.setdefault(a, []).append(n)

    def owner_of(self, n):
        """The attempt a stanza belongs to, from its unique id (late deliveries stay attributable)."""
        if n.tag == "success" and n["t"] is not None and n["t"].isdigit():
            return int(n["t"])
        i = n["id"]
        if i is not None and i.startswith("u") and i[1:].isdigit():
            return self.owner.get(int(i[1:]), -1)
        return -1

    def on_top_event(self, layer, ev):
        S = _S
        name = ev.getName()
        a = self.attempt_no()
        short = name.split(".")[-1]
        self.top_events.append((a, short))
        self.k.note("top ev", a, short)
        if name == S["YowNoiseLayer"].EVENT_HANDSHAKE_FAILED:
            self.hs_failed_count += 1
        elif name == S["YowNetworkLayer"].EVENT_STATE_CONNECTED:
            self.connected += 1
        elif name == S["YowNetworkLayer"].EVENT_STATE_DISCONNECTED:
            self.disconnected += 1
            if self.net.connect_count < len(self.attempts) and not self.done:
                # what YowInterfaceLayer.onDisconnected does when a reconnect is wanted
                self.probe("reconnect_after_cut")
                self._count_stale_workers()
                self.apply_cfg(self.net.connect_count)
                layer.getLayerInterface(S["YowNetworkLayer"]).connect()
        return False

    def apply_cfg(self, a):
        """What the application changes before login attempt a."""
        ch = self.attempts[a].get("cfg") if a < len(self.attempts) else None
        if not ch:
            return
        S = _S
        if "passive" in ch:
            self.stack.setProp(S["YowAuthenticationProtocolLayer"].PROP_PASSIVE, bool(ch["passive"]))
        conf = self.profile.config
        for key in ("pushname", "mcc", "mnc"):
            if key in ch:
                setattr(conf, key, ch[key])

    def _count_stale_workers(self):
        n = 0
        for t in self.k.tasks:
            if t.name == "WANoiseProtocolHandshakeWorker" and t.state != "D":
                n += 1
        if n:
            self.probe("stale_worker_at_next_attempt")

    def on_server_stanza(self, sess, n):
        self.k.note("srv rx", sess.no, n.tag, n["id"])

    # ---------------------------------------------------------------- tasks
    def t_main(self):
        S = _S
        self.stack.broadcastEvent(S["YowLayerEvent"](S["YowNetworkLayer"].EVENT_STATE_CONNECT))
        self.stack.loop()

    def t_server(self):
        net = self.net
        while True:
            ev = net.next_event()
            kind, conn = ev
            if kind == "accept":
                s = Session(self, conn, conn.id - 1)
                conn.user = s
                while len(self.sessions) < conn.id - 1:
                    self.sessions.append(None)
                self.sessions.append(s)
                s.on_accept()
            elif kind == "data":
                s = conn.user
                if s is None:
                    continue
                data = bytes(conn.c2s.buf)
                del conn.c2s.buf[:]
                if data:
                    s.on_bytes(data)
                if conn.c2s.eof and not s.dead:
                    s.close()
            self._abstract_state()

    def _abstract_state(self):
        a = self.attempt_no()
        s = self.sessions[a] if a < len(self.sessions) and self.sessions[a] else None
        workers = sum(1 for t in self.k.tasks if t.name == "WANoiseProtocolHandshakeWorker" and t.state == "W")
        q = self.noise._incoming_segments_queue.qsize()
        self.states.add("%d/%s/%s/%d/%d" % (a, s.r.stage if s else "-", self.noise._wa_noiseprotocol.state, workers, min(q, 3)))
        if q and self.noise._wa_noiseprotocol.state == "handshake":
            self.probe("frame_queued_while_handshake")

    def _wait(self, pred, timeout):
        k = self.k
        end = k.now + int(timeout * 1e6)
        while not pred():
            if k.now >= end:
                return False
            k.sleep(0.002)
        return True

    def t_app(self):
        S = _S
        k = self.k
        for a, att in enumerate(self.attempts):
            last = a == len(self.attempts) - 1
            if not self._wait(lambda: self.net.connect_count >= a + 1, 120):
                self.violate("C04/liveness/no-reconnect", "attempt %d never started: %s" % (a, self._stuck()))
                break
            cut = att["cut"]
            over = lambda: self.disconnected >= a + 1  # noqa
            sess = lambda: self.sessions[a] if a < len(self.sessions) else None  # noqa
            if cut == "client_disc_on_connected":
                self._wait(lambda: self.connected >= 1 and self.top_events and self.top_events[-1][0] == a or over(), 60)
                if not over():
                    self.faults["client_disconnect_in_handshake"] = self.faults.get("client_disconnect_in_handshake", 0) + 1
                    self._disconnect()
            elif cut == "stall_after_hello_client_disc":
                self._wait(lambda: (sess() is not None and sess().hello_seen) or over(), 60)
                if not over():
                    k.sleep(self.srv_rng.choice([0.0, 0.01, 1.5]))
                    self.faults["client_disconnect_in_handshake"] = self.faults.get("client_disconnect_in_handshake", 0) + 1
                    self._disconnect()
            else:
                got_success = self._wait(lambda: any(n.tag == "success" for n in self.top_rx.get(a, [])) or over(), 120)
                if not over() and got_success:
                    self._send_all(a, att, over, cut)
                    if cut == "client_disc_in_transport":
                        self._disconnect()
                    elif cut is None and not att.get("corrupt") and not last:
                        # a complete, fault-free attempt that is not the last one: the application
                        # disconnects once everything has been exchanged
                        self._wait(lambda: (sess() is not None and len(sess().decoded) >= len(self.app_sent.get(a, []))
                                            and len(self.top_rx.get(a, [])) >= 1 + len(att["s2c"])) or over(), 120)
                        if not over():
                            self._disconnect()
            if last:
                sent_all = lambda: (sess() is not None and len(sess().decoded) >= len(self.app_sent.get(a, []))  # noqa
                                    and len(self.top_rx.get(a, [])) >= 1 + len(att["s2c"]))
                if not self._wait(lambda: sent_all() or over(), 300):
                    self.violate("C04/liveness/final-attempt-incomplete",
                                 "final attempt %d did not complete within 300 virtual s: %s" % (a, self._progress(a)))
                elif not sent_all():
                    self.violate("C04/final-attempt-dropped", "the connection of the final (fault-free) attempt %d "
                                 "went down before all stanzas were exchanged: %s" % (a, self._progress(a)))
                break
            if not self._wait(over, 180):
                self.violate("C04/liveness/no-disconnected-event",
                             "attempt %d (cut=%s corrupt=%s): no DISCONNECTED event within 180 virtual s: %s"
                             % (a, cut, att.get("corrupt"), self._stuck()))
                break
        self.done = True
        k.finish()

    def _progress(self, a):
        s = self.sessions[a] if a < len(self.sessions) else None
        return "top received %d/%d, server decoded %d/%d, server stage %s; %s" % (
            len(self.top_rx.get(a, [])), 1 + len(self.attempts[a]["s2c"]), len(s.decoded) if s else -1,
            len(self.app_sent.get(a, [])), s.r.stage if s else None, self._stuck())

    def _stuck(self):
        return "blocked=%s errors=%s" % (
            [(b["task"], b["on"]) for b in self.k.blocked_report() if b["task"] not in ("app",)],
            [(n, repr(e)) for (n, e, tb) in self.k.errors][:3])

    def _disconnect(self):
        S = _S
        self.k.note("app: disconnect request")
        try:
            self.stack.broadcastEvent(S["YowLayerEvent"](S["YowNetworkLayer"].EVENT_STATE_DISCONNECT))
        except Exception as e:  # noqa
            import traceback
            self.k.note("app: disconnect raised", type(e).__name__)
            self.violate("C04/disconnect-request-raises:%s" % type(e).__name__, "the application's disconnect request raised: %s"
                         % traceback.format_exc()[-500:])

    def _send_all(self, a, att, over, cut):
        k = self.k
        lst = self.app_sent.setdefault(a, [])
        stop_after = att.get("cut_after", 0) if cut == "client_disc_in_transport" else None
        for j, d in enumerate(att["c2s"]):
            if over():
                break
            n = wire.gen_stanza(self.seed, d["i"], d.get("big"))
            if n.data is not None and len(n.data) >= (1 << 20) or len(n.children) > 255:
                self.probe("big_stanza")
            try:
                self.probe_layer.toLower(RC.to_ptn(n))
                lst.append(n)
            except Exception as e:  # noqa
                self.app_errors.append((a, j, repr(e)))
                if cut is None and not self.attempts[a].get("corrupt") and not over():
                    self.violate("C04/c2s/send-raises:%s" % type(e).__name__,
                                 "attempt %d: sending stanza %d raised %r while the connection was up" % (a, j, e))
                break
            if stop_after is not None and j >= stop_after:
                break
            x = self.srv_rng.random()
            if x < 0.3:
                k.sleep(self.srv_rng.choice([0.0005, 0.02]))

    # ---------------------------------------------------------------- final oracle
    def judge(self):
        natt = len(self.attempts)
        for a in range(natt):
            att = self.attempts[a]
            s = self.sessions[a] if a < len(self.sessions) else None
            full = att["cut"] is None and not att.get("corrupt")
            got = self.top_rx.get(a, [])
            sent = s.sent if s else []
            # s2c: what the top saw must be a prefix of what the server sent (whole sequence if the attempt is full)
            bad = _prefix_diff(got, sent)
            if bad is not None:
                self.violate("C04/s2c/%s" % bad[0], "attempt %d (variant %s): %s" % (a, s.r.variant if s else None, bad[1]))
            elif full and a == natt - 1 and len(got) != len(sent) and not self.violations:
                self.violate("C04/s2c/missing", "attempt %d: top received %d of %d server stanzas" % (a, len(got), len(sent)))
            dec = s.decoded if s else []
            subm = self.app_sent.get(a, [])
            bad = _prefix_diff(dec, subm)
            if bad is not None:
                self.violate("C04/c2s/%s" % bad[0], "attempt %d: %s" % (a, bad[1]))
            elif full and a == natt - 1 and len(dec) != len(subm) and not self.violations:
                self.violate("C04/c2s/missing", "attempt %d: server decoded %d of %d stanzas" % (a, len(dec), len(subm)))
        if -1 in self.top_rx:
            self.violate("C04/s2c/extra", "the top received stanzas nobody sent: %s" % [n.short(1) for n in self.top_rx[-1][:3]])
        expected_failures = sum(1 for a, att in enumerate(self.attempts) if att.get("corrupt") and a < len(self.sessions)
                                and self.sessions[a] is not None and self.sessions[a].hello_seen)
        if self.failure_count < expected_failures:
            self.violate("C04/failure/not-reported", "%d ServerHello replies failed authentication but only %d failure "
                         "stanzas reached the top (handshake_failed events: %d)"
                         % (expected_failures, self.failure_count, self.hs_failed_count))
        elif self.failure_count > expected_failures:
            self.violate("C04/failure/spurious", "%d login failures were reported, only %d server replies failed "
                         "authentication; cuts=%s errors=%s" % (self.failure_count, expected_failures,
                         [a["cut"] for a in self.attempts], [(n, repr(e)) for (n, e, tb) in self.k.errors][:2]))
        elif self.hs_failed_count != expected_failures:
            self.violate("C04/failure/event-count", "%d failure stanzas but %d handshake-failed events"
                         % (self.failure_count, self.hs_failed_count))
        elif expected_failures:
            self.probe("login_failure_reported", expected_failures)
        # (b) stored server key
        reached = any((s is not None and (s.decoded or any(True for _ in self.top_rx.get(i, []))))
                      for i, s in enumerate(self.sessions))
        if reached:
            rs = self.profile.config.server_static_public
            if rs is None or bytes(rs.data) != self.server_pub:
                self.violate("C04/serverkey/not-stored-in-memory", "transport was reached but the profile's config holds %r"
                             % (None if rs is None else binascii.hexlify(bytes(rs.data))[:16]))
            if self.case["variant"] != "IK":
                from yowsup.config.manager import ConfigManager
                try:
                    loaded = ConfigManager().load(PHONE)
                    lrs = loaded.server_static_public if loaded is not None else None
                    if lrs is None or bytes(lrs.data) != self.server_pub:
                        self.violate("C04/serverkey/not-stored-on-disk", "config reloaded from the profile holds server key %r"
                                     % (None if lrs is None else binascii.hexlify(bytes(lrs.data))[:16]))
                    else:
                        self.probe("config_rewritten")
                except Exception as e:  # noqa
                    self.violate("C04/serverkey/reload-raises", repr(e))
        for (name, e, tb) in self.k.errors:
            if name == "app":
                self.violate("C04/harness-app-task", tb[-600:])
            elif name == "WANoiseProtocolHandshakeWorker":
                # a worker of a cut-off attempt dying on the reset state machine is not, by itself,
                # something the property forbids; its consequences (if any) show in the clauses above
                self.probe("worker_died")
            elif name == "main" and not self.violations:
                self.violate("C04/thread-died:%s:%s" % (name, type(e).__name__), tb[-700:])


def _prefix_diff(got, sent):
    """None if got is a prefix of sent; else (kind, detail)."""
    for i, g in enumerate(got):
        if i >= len(sent):
            if any(g == s for s in sent):
                return ("duplicate", "stanza #%d %s was delivered again" % (i, g.short(1)))
            return ("extra", "stanza #%d %s was never sent" % (i, g.short(1)))
        if g != sent[i]:
            if any(g == s for s in sent[i + 1:]):
                if any(sent[i] == x for x in got[i + 1:]):
                    return ("reordered", "position %d: got %s, sent %s" % (i, g.short(1), sent[i].short(1)))
                return ("lost", "position %d: %s was skipped, next delivered %s" % (i, sent[i].short(1), g.short(1)))
            if any(g == s for s in sent[:i]):
                return ("duplicate", "position %d: %s delivered twice" % (i, g.short(1)))
            return ("corrupt", "position %d: got %s, sent %s" % (i, g.short(2), sent[i].short(2)))
    return None


def run(case):
    w = W(case)
    w.build()
    k = w.k
    k.spawn(w.t_server, "server", daemon=True)
    k.spawn(w.t_main, "main")
    k.spawn(w.t_app, "app")
    status = w.run()
    if status != "finished":
        w.violate("C04/liveness/%s" % status, "run ended with kernel status %s: %s" % (status, w._stuck()))
    try:
        w.judge()
    except Exception:
        import traceback
        w.violate("C04/harness-judge", traceback.format_exc()[-800:])
    w.finish()
    a = len(case["attempts"]) - 1
    s = w.sessions[a] if a < len(w.sessions) else None
    nontrivial = bool(s and s.transport_seen and (not case["attempts"][a]["s2c"] or len(w.top_rx.get(a, [])) > 1)
                      and (not case["attempts"][a]["c2s"] or s.decoded))
    return w.result(nontrivial, w.states)
