"""C06 — exactly-once routing of stanzas and entities through the assembled stack.

World W2: account A running a stack assembled from the default layers under one of the 16
optional-module selections, with or without the encryption layers, in a live session (iq
registries non-empty, sessions established) against the server double; a peer P supplies
end-to-end encrypted messages.  A seeded stream mixes outgoing entities of every supported kind
and incoming stanzas of every supported kind with ordinary traffic; duplicate deliveries are a
fault.  Oracle: the hand-written routing table of DESIGN.md Appendix A (exactly 1 / exactly 0)."""
from sim.rng import stream
from worlds import convo
from doubles import refcodec as RC
from doubles.refcodec import Node

PROP = "C06"
LEVEL = "exploration"
RULE = ("case = module selection (16 combinations x with/without encryption layers, swept by idx) x 10-60 events: outgoing "
        "entities (messages text/ext/media by type, receipts, acks, presence, chat state, iq by namespace: ping, push, props, "
        "sync, last seen, dirty clean, group ops, upload request, privacy list, profile picture/privacy/status) and incoming "
        "stanzas (messages by type from a peer, receipts, acks, presence, chat state, calls, ib kinds, notifications by type, "
        "sync result, server ping) with generated ids/JIDs x duplicate deliveries x scheduling; distinct = distinct event "
        "digests; non-trivial = at least 8 different kinds were routed")
COMPONENTS = {"real": ["yowsup.layers.YowParallelLayer / YowProtocolLayer", "all protocol layers", "axolotl layers", "auth layer",
                       "interface layer", "coder", "network layer", "yowsup.stacks.YowStack"],
              "stub": ["server double", "reference codec", "routing table (DESIGN.md Appendix A)", "scheduler"]}
ASSUMPTIONS = ["six 1.17 shim", "actor assumption", "message content fidelity is C03's/C10's business: for messages the oracle checks "
               "count, id, addressee and type", "incoming entities are matched by count, tag, id and sender, not by full "
               "re-serialisation (that is C09)"]
BUDGET = {"quick": (800, 150), "thorough": (100000, 2700)}
FAULTS = ["srv_dup_delivery"]
PROBES = ["out_exact", "out_zero_module_off", "in_one", "in_zero_module_off", "dup_routed_twice", "message_out", "message_in"]
SHRINK = ["events"]
PA, PP = "4915140000001", "4915140000002"
JA, JP = PA + "@s.whatsapp.net", PP + "@s.whatsapp.net"
GJ = "4915140000001-1500000000@g.us"
# kind -> owning optional module (None = basic)
OUT = {"text": None, "ext": None, "image": "media", "location": "media", "contact": "media", "url": "media",
       "receipt": None, "receipt_read": None, "receipt_list": None, "ack": None, "presence_available": None,
       "presence_unavailable": None, "presence_subscribe": None, "presence_unsubscribe": None, "chatstate": None,
       "iq_ping": None, "iq_push": None, "iq_props": None, "iq_sync": None, "iq_lastseen": None, "iq_clean": None,
       "g_list": "groups", "g_info": "groups", "g_create": "groups", "g_leave": "groups", "g_subject": "groups", "g_add": "groups",
       "g_remove": "groups", "g_promote": "groups", "g_demote": "groups", "p_privacylist": "privacy",
       "f_picture_get": "profiles", "f_privacy_get": "profiles", "f_privacy_set": "profiles", "f_statuses_get": "profiles",
       "f_status_set": "profiles"}
IN = {"msg_text": None, "msg_ext": None, "msg_image": "media", "msg_location": "media", "msg_contact": "media", "msg_url": "media",
      "receipt": None, "receipt_read": None, "receipt_list": None, "receipt_group": None, "ack": None, "presence": None,
      "chatstate": None, "call": None, "ib_dirty": None, "ib_offline": None, "ib_account": None, "ib_edge": "ZERO",
      "n_picture_set": None, "n_picture_delete": None, "n_status": None, "n_contacts_add": None, "n_contacts_remove": None,
      "n_contacts_update": None, "n_contacts_sync": None, "n_gp2_subject": "groups", "n_gp2_create": "groups",
      "n_gp2_remove": "groups", "n_gp2_add": "groups", "iq_sync_result": None, "iq_server_ping": "ZERO"}
_S = {}


def setup():
    convo.setup_process()
    from checks import c03
    c03.setup()
    _S["c03"] = c03
    from yowsup.layers.protocol_receipts.protocolentities import OutgoingReceiptProtocolEntity
    from yowsup.layers.protocol_acks.protocolentities import OutgoingAckProtocolEntity
    from yowsup.layers.protocol_presence.protocolentities import AvailablePresenceProtocolEntity, \
        UnavailablePresenceProtocolEntity, SubscribePresenceProtocolEntity, UnsubscribePresenceProtocolEntity, \
        LastseenIqProtocolEntity
    from yowsup.layers.protocol_chatstate.protocolentities import OutgoingChatstateProtocolEntity
    from yowsup.layers.protocol_iq.protocolentities import PingIqProtocolEntity, PushIqProtocolEntity, PropsIqProtocolEntity
    from yowsup.layers.protocol_contacts.protocolentities import GetSyncIqProtocolEntity
    from yowsup.layers.protocol_ib.protocolentities import CleanIqProtocolEntity
    from yowsup.layers.protocol_groups.protocolentities import ListGroupsIqProtocolEntity, InfoGroupsIqProtocolEntity, \
        CreateGroupsIqProtocolEntity, LeaveGroupsIqProtocolEntity, SubjectGroupsIqProtocolEntity, \
        AddParticipantsIqProtocolEntity, RemoveParticipantsIqProtocolEntity, PromoteParticipantsIqProtocolEntity, \
        DemoteParticipantsIqProtocolEntity
    from yowsup.layers.protocol_privacy.protocolentities import PrivacyListIqProtocolEntity
    from yowsup.layers.protocol_profiles.protocolentities import GetPictureIqProtocolEntity, GetPrivacyIqProtocolEntity, \
        SetPrivacyIqProtocolEntity, GetStatusesIqProtocolEntity, SetStatusIqProtocolEntity
    from yowsup.layers.protocol_messages.proto.e2e_pb2 import Message
    _S.update(locals())


def total(tier):
    return BUDGET[tier][0]


def case(idx, tier, base):
    seed = base * (1 << 20) + idx
    r = stream(seed, "workload")
    m = idx % 16
    modules = {"groups": bool(m & 1), "media": bool(m & 2), "privacy": bool(m & 4), "profiles": bool(m & 8)}
    axolotl = (idx // 16) % 2 == 0
    ev = []
    outs, ins = sorted(OUT), sorted(IN)
    for i in range(r.randint(10, 60)):
        if r.random() < 0.5:
            e = {"d": "out", "kind": r.choice(outs)}
        else:
            e = {"d": "in", "kind": r.choice(ins), "dup": r.random() < 0.1}
        e["n"] = i
        ev.append(e)
    return {"seed": seed, "modules": modules, "axolotl": axolotl, "events": ev, "burst": r.random() < 0.3}


def repair(case):
    return case if case.get("events") else None


def simplify(case):
    if case.get("burst"):
        c = dict(case)
        c["burst"] = False
        yield c


def mk_out(kind, seed, n):
    """(entity, expected message descriptor or None)."""
    S = _S
    c03 = S["c03"]
    if kind in ("text", "ext", "image", "location", "contact", "url"):
        e, _ = c03.compose(kind, JP, seed, n)
        return e
    if kind == "receipt":
        return S["OutgoingReceiptProtocolEntity"]("rcpt-%d" % n, JP)
    if kind == "receipt_read":
        return S["OutgoingReceiptProtocolEntity"]("rcpt-%d" % n, GJ, read=True, participant=JP)
    if kind == "receipt_list":
        return S["OutgoingReceiptProtocolEntity"](["rl-%d-a" % n, "rl-%d-b" % n, "rl-%d-c" % n], JP, read=True)
    if kind == "ack":
        return S["OutgoingAckProtocolEntity"]("ack-%d" % n, "receipt", "read", JP)
    if kind == "presence_available":
        return S["AvailablePresenceProtocolEntity"]()
    if kind == "presence_unavailable":
        return S["UnavailablePresenceProtocolEntity"]()
    if kind == "presence_subscribe":
        return S["SubscribePresenceProtocolEntity"](JP)
    if kind == "presence_unsubscribe":
        return S["UnsubscribePresenceProtocolEntity"](JP)
    if kind == "chatstate":
        return S["OutgoingChatstateProtocolEntity"]("composing", JP)
    if kind == "iq_ping":
        return S["PingIqProtocolEntity"]()
    if kind == "iq_push":
        return S["PushIqProtocolEntity"]()
    if kind == "iq_props":
        return S["PropsIqProtocolEntity"]()
    if kind == "iq_sync":
        return S["GetSyncIqProtocolEntity"](["+" + PP])
    if kind == "iq_lastseen":
        return S["LastseenIqProtocolEntity"](JP)
    if kind == "iq_clean":
        return S["CleanIqProtocolEntity"]("groups", "s.whatsapp.net")
    if kind == "g_list":
        return S["ListGroupsIqProtocolEntity"]()
    if kind == "g_info":
        return S["InfoGroupsIqProtocolEntity"](GJ)
    if kind == "g_create":
        return S["CreateGroupsIqProtocolEntity"]("subject %d" % n, participants=[JP])
    if kind == "g_leave":
        return S["LeaveGroupsIqProtocolEntity"]([GJ])
    if kind == "g_subject":
        return S["SubjectGroupsIqProtocolEntity"](GJ, b"subj")
    if kind == "g_add":
        return S["AddParticipantsIqProtocolEntity"](GJ, [JP])
    if kind == "g_remove":
        return S["RemoveParticipantsIqProtocolEntity"](GJ, [JP])
    if kind == "g_promote":
        return S["PromoteParticipantsIqProtocolEntity"](GJ, [JP])
    if kind == "g_demote":
        return S["DemoteParticipantsIqProtocolEntity"](GJ, [JP])
    if kind == "p_privacylist":
        return S["PrivacyListIqProtocolEntity"]()
    if kind == "f_picture_get":
        return S["GetPictureIqProtocolEntity"](JP)
    if kind == "f_privacy_get":
        return S["GetPrivacyIqProtocolEntity"]()
    if kind == "f_privacy_set":
        return S["SetPrivacyIqProtocolEntity"]("contacts", ["last"])
    if kind == "f_statuses_get":
        return S["GetStatusesIqProtocolEntity"]([JP])
    if kind == "f_status_set":
        return S["SetStatusIqProtocolEntity"](b"hey")
    raise ValueError(kind)


def mk_in(kind, n, r):
    """Server-originated stanza (non-message kinds)."""
    sid = "in-%d-%d" % (n, r.randint(1000, 9999))
    t = str(1700000000 + n)
    frm = r.choice([JP, "4915140000%03d@s.whatsapp.net" % r.randint(100, 999)])
    if kind == "receipt":
        return Node("receipt", {"from": frm, "id": sid, "t": t, "offline": "0"}), sid
    if kind == "receipt_read":
        return Node("receipt", {"from": frm, "id": sid, "t": t, "type": "read"}), sid
    if kind == "receipt_list":
        return Node("receipt", {"from": frm, "id": sid, "t": t, "type": "read"},
                    [Node("list", None, [Node("item", {"id": sid + "-a"}), Node("item", {"id": sid + "-b"})])]), sid
    if kind == "receipt_group":
        return Node("receipt", {"from": GJ, "participant": frm, "id": sid, "t": t}), sid
    if kind == "ack":
        return Node("ack", {"class": "message", "id": sid, "from": frm, "t": t}), sid
    if kind == "presence":
        return Node("presence", {"from": frm, "last": "deny" if r.random() < 0.5 else t}
                    if r.random() < 0.7 else {"from": frm, "type": "unavailable", "last": t}), None
    if kind == "chatstate":
        return Node("chatstate", {"from": frm}, [Node(r.choice(["composing", "paused"]))]), None
    if kind == "call":
        return Node("call", {"from": frm, "id": sid, "t": t, "offline": "0", "notify": "x"},
                    [Node(r.choice(["offer", "terminate", "reject"]), {"call-id": "CID%d" % n})]), sid
    if kind == "ib_dirty":
        return Node("ib", {"from": "s.whatsapp.net"}, [Node("dirty", {"type": "groups", "timestamp": t})]), None
    if kind == "ib_offline":
        return Node("ib", {"from": "s.whatsapp.net"}, [Node("offline", {"count": str(n)})]), None
    if kind == "ib_account":
        return Node("ib", {"from": "s.whatsapp.net"}, [Node("account", {"kind": "free", "status": "active", "creation": t,
                                                                          "expiration": str(1800000000 + n)})]), None
    if kind == "ib_edge":
        return Node("ib", {"from": "s.whatsapp.net"}, [Node("edge_routing", None, [Node("routing_info", None, None, b"\x01\x02")])]), None
    base = {"id": sid, "t": t, "from": frm, "offline": "0", "notify": "x"}
    if kind == "n_picture_set":
        return Node("notification", dict(base, type="picture"), [Node("set", {"jid": frm, "id": str(n + 1)})]), sid
    if kind == "n_picture_delete":
        return Node("notification", dict(base, type="picture"), [Node("delete", {"jid": frm})]), sid
    if kind == "n_status":
        return Node("notification", dict(base, type="status"), [Node("set", None, None, b"status text")]), sid
    if kind.startswith("n_contacts"):
        k = kind.split("_")[2]
        return Node("notification", dict(base, type="contacts"), [Node(k, {"jid": frm} if k != "sync" else {"after": t})]), sid
    if kind.startswith("n_gp2"):
        k = kind.split("_")[2]
        b2 = dict(base, type="w:gp2", participant=frm)
        b2["from"] = GJ
        if k == "subject":
            ch = [Node("subject", {"subject": "new", "s_t": t, "s_o": frm})]
        elif k == "create":
            ch = [Node("create", {"type": "new", "key": "k"}, [Node("group", {"id": GJ.split("@")[0], "creator": frm, "creation": t,
                  "subject": "s", "s_t": t, "s_o": frm}, [Node("participant", {"jid": frm, "type": "admin"}),
                                                          Node("participant", {"jid": JA})])])]
        elif k == "remove":
            ch = [Node("remove", {"subject": "s"}, [Node("participant", {"jid": JP})])]
        else:
            ch = [Node("add", None, [Node("participant", {"jid": JP})])]
        return Node("notification", b2, ch), sid
    if kind == "iq_sync_result":
        return Node("iq", {"type": "result", "from": JA, "id": sid},
                    [Node("sync", {"sid": "1", "index": "0", "last": "true", "version": "1", "wait": "0"},
                          [Node("in", None, [Node("user", {"jid": JP}, None, ("+" + PP).encode())])])]), sid
    if kind == "iq_server_ping":
        return Node("iq", {"type": "get", "xmlns": "urn:xmpp:ping", "from": "s.whatsapp.net", "id": sid}), sid
    raise ValueError(kind)


class W(convo.World):
    PROP = "C06"

    def __init__(self, case):
        super(W, self).__init__(case["seed"], {"prekeys": 40, "threshold": 2})
        self.case = case
        self.ready = {}
        self.status = None
        self.a = self.add_client("A", PA, modules=case["modules"], with_axolotl=case["axolotl"])
        self.p = self.add_client("P", PP)
        self.server.groups[GJ] = {"creator": JA, "subject": "g", "participants": [JA, JP]}
        self.server.low_mark = 0
        # requests A sends as part of the outgoing stream are not answered (reply handling is C08's subject); the
        # encryption layers' own requests are
        self.server.hooks.append(lambda srv, cid, node: srv.conns[cid]["jid"] == JA and node.tag == "iq"
                                 and node["type"] in ("get", "set") and node["xmlns"] != "encrypt")
        self.app_log = []      # (tag, id, from, class name) of every entity at A's application
        self.kinds = set()
        self.checks = []       # deferred expectations

    def on_app_entity(self, client, e):
        if e.getTag() == "success":
            S = convo.S()
            if not client.with_axolotl or not client.stack.getProp(S["YowAuthenticationProtocolLayer"].PROP_PASSIVE, False):
                self.ready[client.name] = True
        if client is self.a:
            gid = getattr(e, "getId", lambda: None)
            try:
                i = gid()
            except Exception:
                i = None
            self.app_log.append((e.getTag(), i, e.__class__.__name__))

    def on_app_event(self, client, ev):
        if ev.getName().endswith("network.disconnected"):
            self.ready[client.name] = False

    def on_receive_exception(self, client, exc, tb):
        if client is self.a:
            self.violate("error-instead-of-routing/%s:%s" % (self.cur_kind, type(exc).__name__),
                         "A raised while routing incoming %s: %s" % (self.cur_kind, tb[-600:]))
        else:
            self.client_error(client, "receive path", exc, tb)

    cur_kind = "?"

    # ---------------------------------------------------------------- operations (run in A's / P's thread)
    def do_out(self, e):
        kind = e["kind"]
        owner = OUT[kind]
        selected = owner is None or self.case["modules"][owner]
        ismsg = kind in ("text", "ext", "image", "location", "contact", "url")
        ent = mk_out(kind, self.seed, e["n"])
        expected = RC.from_ptn(ent.toProtocolTreeNode())
        before = len(self.a.wire_out)
        try:
            self.a.app.toLower(ent)
        except Exception as ex:  # noqa
            import traceback
            self.violate("out/raises/%s%s:%s" % (kind, "" if selected else "/module-off", type(ex).__name__),
                         "sending %s raised: %s" % (kind, traceback.format_exc()[-500:]))
            return
        new = self.a.wire_out[before:]
        self.kinds.add("out/" + kind)
        if not selected:
            if new:
                self.violate("out/not-zero/%s" % kind, "module %s is left out but sending %s put %s on the wire"
                             % (owner, kind, [x.short(1) for x in new][:2]))
            else:
                self.probe("out_zero_module_off")
            return
        if ismsg:
            msgs = [x for x in new if x.tag == "message"]
            other = [x for x in new if x.tag != "message"]
            if len(msgs) != 1 or other:
                self.violate("out/message-count/%s" % kind, "sending one %s message produced %d message stanzas and %s"
                             % (kind, len(msgs), [x.short(0) for x in other][:3]))
                return
            m = msgs[0]
            if m["id"] != expected["id"] or m["to"] != expected["to"] or m["type"] != expected["type"]:
                self.violate("out/message-header/%s" % kind, "wire %s vs entity %s" % (m.short(0), expected.short(0)))
                return
            if self.case["axolotl"]:
                if any(c.tag != "enc" for c in m.children):
                    self.violate("out/message-not-encrypted/%s" % kind, m.short(1))
                    return
            elif m != expected:
                self.violate("out/differs/%s" % kind, "wire %s vs serialisation %s" % (m.short(1), expected.short(1)))
                return
            self.probe("message_out")
            return
        if len(new) != 1:
            self.violate("out/%s/%s" % ("missing" if not new else "duplicated", kind),
                         "sending one %s entity put %d stanzas on the wire: %s" % (kind, len(new), [x.short(1) for x in new][:3]))
        elif new[0] != expected:
            self.violate("out/differs/%s" % kind, "wire %s vs serialisation %s" % (new[0].short(2), expected.short(2)))
        else:
            self.probe("out_exact")

    def peer_send(self, kind, n):
        ent, _ = _S["c03"].compose(kind, JA, self.seed, 1000 + n)
        self.sent_ids[n] = ent.getId()
        self.p.app.toLower(ent)

    # ---------------------------------------------------------------- script
    def director(self):
        S = _S
        k = self.k
        r = stream(self.seed, "director")
        self.sent_ids = {}
        self.a.start()
        self.p.start()
        if not self.wait_until(lambda: self.ready.get("A") and self.ready.get("P"), 120):
            self.status = "stuck-at-login"
            return
        if self.case["axolotl"]:
            # establish sessions both ways first: afterwards every message is exactly one stanza
            self.a.post_op(lambda: self.a.app.toLower(_S["c03"].compose("text", JP, self.seed, 9000)[0]))
            if not self.wait_quiescent(60):
                self.status = "stuck"
                return
            self.p.post_op(lambda: self.p.app.toLower(_S["c03"].compose("text", JA, self.seed, 9001)[0]))
        if not self.wait_quiescent(60):
            self.status = "stuck"
            return
        for e in self.case["events"]:
            if self.violations:
                break
            if not self.wait_quiescent(60):
                self.status = "stuck"
                return
            if not self.ready.get("A"):
                self.status = "A-went-down"
                break
            kind = e["kind"]
            self.cur_kind = kind
            if e["d"] == "out":
                self.a.post_op(lambda e=e: self.do_out(e))
                continue
            owner = IN[kind]
            selected = owner is None or (owner != "ZERO" and self.case["modules"].get(owner, False))
            want = 0 if (owner == "ZERO" or not selected) else 1
            n_del = 2 if e.get("dup") else 1
            mark = len(self.app_log)
            if kind.startswith("msg_"):
                mk = kind[4:]
                if self.case["axolotl"]:
                    if e.get("dup"):
                        n_del = 1   # a duplicated ciphertext is (correctly) shown once: that is C03's clause
                    self.p.post_op(lambda mk=mk, n=e["n"]: self.peer_send(mk, n))
                    if not self.wait_quiescent(60):
                        self.status = "stuck"
                        return
                    sid = self.sent_ids.get(e["n"])
                else:
                    ent, _ = _S["c03"].compose(mk, JA, self.seed, 1000 + e["n"])
                    node = RC.from_ptn(ent.toProtocolTreeNode())
                    sid = "pm-%d" % e["n"]
                    attrs = {"from": JP, "id": sid, "type": node["type"], "t": str(1700000000 + e["n"]), "notify": "p"}
                    st = Node("message", attrs, node.children)
                    for _ in range(n_del):
                        self.server.to_jid(JA, st)
                    self.kick_server()
                tag = "message"
            else:
                node, sid = mk_in(kind, e["n"], stream(self.seed, "in/%d" % e["n"]))
                for _ in range(n_del):
                    self.server.to_jid(JA, node)
                self.kick_server()
                tag = node.tag
            if n_del == 2:
                self.on_fault("srv_dup_delivery", kind, {})
            if not self.wait_quiescent(60):
                self.status = "stuck"
                return
            got = [x for x in self.app_log[mark:] if x[0] == tag and (sid is None or x[1] == sid)]
            self.kinds.add("in/" + kind)
            if len(got) != want * n_del:
                if want == 0:
                    self.violate("in/not-zero/%s" % kind, "incoming %s (owner %s %s) produced %d entities at the application: %s"
                                 % (kind, owner, "left out" if owner != "ZERO" else "- never surfaces", len(got), got[:2]))
                else:
                    self.violate("in/%s/%s" % ("missing" if len(got) < want * n_del else "duplicated", kind),
                                 "incoming %s delivered %d time(s) produced %d entities at the application (expected %d): %s; "
                                 "everything seen: %s" % (kind, n_del, len(got), want * n_del, got[:3], self.app_log[mark:][:4]))
            else:
                self.probe("in_one" if want else "in_zero_module_off")
                if n_del == 2 and want:
                    self.probe("dup_routed_twice")
                if kind.startswith("msg_") and want:
                    self.probe("message_in")
        if self.status is None:
            if not self.wait_quiescent(120):
                self.status = "stuck"
                return
            self.status = "done"

    def judge(self, kstatus):
        if self.status != "done" or kstatus != "finished":
            if not self.violations:
                self.violate("liveness/%s" % (self.status or kstatus), self.stuck_report())


def run(case):
    w = W(case)
    try:
        ks = w.run()
        w.judge(ks)
    finally:
        w.finish()
    return w.result(len(w.kinds) >= 8 or bool(w.violations))
