"""C17 — contact identity keys are pinned: a changed key is never accepted silently.

World W2: accounts A (the pinning party; automatic trust on or off), B (a contact that may
reinstall: its key database is wiped, it gets a new identity and uploads new keys) and optionally
C.  Histories of messages in either direction, reinstalls, clean restarts of A.  Reference model:
pinned(A, B) = the first identity A saw for B (replaced by the new one only when automatic trust
is on).  Oracle over A's stored pin (read through the store API at every quiescent point and after
restarts), the application-level deliveries on both sides and the stanzas on the wire."""
from sim.rng import stream
from worlds import convo

PROP = "C17"
LEVEL = "exploration"
RULE = ("case = automatic trust on/off x 4-14 operations over {A sends to B, B sends to A, B reinstalls (new identity, new keys "
        "on the server), A restarts, C sends to A} with the first contact made from either side x scheduling; after every "
        "operation the system runs to quiescence and A's stored pin for B is read; distinct = distinct event digests; "
        "non-trivial = B reinstalled after A had pinned its identity and at least one message was attempted afterwards")
COMPONENTS = {"real": ["yowsup.axolotl.store.sqlite.liteidentitykeystore", "yowsup.axolotl.manager (create_session, trust_identity, "
                       "decrypt_*)", "yowsup.layers.axolotl (base/send/receive/control)", "python-axolotl SessionBuilder/SessionCipher",
                       "protocol layers", "coder", "network layer"],
              "stub": ["server double (key directory replaced on reinstall)", "scheduler", "application double", "pin reference model"]}
ASSUMPTIONS = ["six 1.17 shim", "actor assumption", "operations are issued at quiescent points (the property is about histories, not "
               "about races between a reinstall and messages in flight)"]
BUDGET = {"quick": (600, 150), "thorough": (80000, 2700)}
FAULTS = ["reinstall", "clean_restart"]
PROBES = ["group_message_to_changed_identity", "group_message_from_changed_identity", "identity_change_notification_after_reinstall", "pin_kept_after_reinstall", "untrusted_first_message_refused", "untrusted_bundle_refused", "autotrust_replaced_pin",
          "pin_enforced_after_restart", "messaging_resumed_with_autotrust", "first_contact_by_incoming_message", "autotrust_toggled_while_connected"]
SHRINK = ["ops"]
PH = {"A": "4915150000001", "B": "4915150000002", "C": "4915150000003"}
_S = {}


def setup():
    convo.setup_process()
    from checks import c03
    c03.setup()
    _S["c03"] = c03


def total(tier):
    return BUDGET[tier][0]


def case(idx, tier, base):
    seed = base * (1 << 20) + idx
    r = stream(seed, "workload")
    ops = []
    reinstalled = False
    for i in range(r.randint(4, 14)):
        x = r.random()
        if x < 0.28:
            ops.append("a2b")
        elif x < 0.56:
            ops.append("b2a")
        elif x < 0.63:
            ops.append("a2g")
        elif x < 0.7:
            ops.append("b2g")
        elif x < 0.82 and i >= 1:
            ops.append("reinstall_b")
            reinstalled = True
            if r.random() < 0.5:
                # the server tells A that B's identity changed (A then fetches B's keys on its own)
                ops.append("notify_identity")
        elif x < 0.86 and reinstalled:
            ops.append("notify_identity")
        elif x < 0.90:
            ops.append("restart_a")
        elif x < 0.96:
            ops.append(r.choice(["autotrust_on", "autotrust_off"]))
        else:
            ops.append("c2a")
    if not reinstalled:
        ops.insert(r.randint(1, len(ops)), "reinstall_b")
        ops.append(r.choice(["a2b", "b2a", "notify_identity"]))
    return {"seed": seed, "autotrust": idx % 2 == 1, "ops": ops}


def repair(case):
    return case if case.get("ops") else None


class W(convo.World):
    PROP = "C17"

    def __init__(self, case):
        super(W, self).__init__(case["seed"], {"prekeys": 30, "threshold": 2})
        self.case = case
        self.ready = {}
        self.status = None
        self.a = self.add_client("A", PH["A"], autotrust=case["autotrust"])
        self.b = self.add_client("B", PH["B"])
        self.c = self.add_client("C", PH["C"])
        self.server.low_mark = 0
        self.gj = PH["A"] + "-1500000000@g.us"
        self.server.groups[self.gj] = {"creator": self.a.jid, "subject": "g", "participants": [self.a.jid, self.b.jid, self.c.jid]}
        self.b_inc = 0                 # incarnation of B
        self.b_keys = {}               # incarnation -> identity public key object
        self.pinned = None             # incarnation whose identity A has pinned for B
        self.sent = {}                 # (sender jid, id) -> {"dir", "inc", "tok", "delivered"}
        self.tok = 0
        self.after_reinstall_attempts = 0
        self.refused_logged = 0
        self.auto = bool(case["autotrust"])

    def on_app_entity(self, client, e):
        if e.getTag() == "success":
            S = convo.S()
            if not client.stack.getProp(S["YowAuthenticationProtocolLayer"].PROP_PASSIVE, False):
                self.ready[client.name] = True

    def on_app_event(self, client, ev):
        if ev.getName().endswith("network.disconnected"):
            self.ready[client.name] = False

    def on_app_message(self, client, e):
        sender = e.getParticipant() if e.isGroupMessage() else e.getFrom()
        rec = self.sent.get((sender, e.getId()))
        if rec is None:
            self.violate("delivery/unknown-message", "%s got a message nobody sent: id %s from %s" % (client.name, e.getId(), e.getFrom()))
            return
        want = {"a2b": self.b, "a2g": self.b, "b2a": self.a, "b2g": self.a, "c2a": self.a}[rec["dir"]]
        if client is not want:
            return      # the third member of the group: not part of this property's story
        rec["delivered"] += 1
        body = getattr(e, "getBody", lambda: None)()
        if body != rec["body"]:
            self.violate("delivery/content-differs", "%s: %r vs %r" % (client.name, body, rec["body"]))
        if client is self.a and rec["dir"] in ("b2a", "b2g"):
            if self.pinned is None:
                self.pinned = rec["inc"]
                self.probe("first_contact_by_incoming_message")
            elif rec["inc"] != self.pinned:
                if self.auto:
                    self.pinned = rec["inc"]
                else:
                    self.violate("changed-identity-accepted/incoming-message",
                                 "A's application was shown message tok %d sent by B after its reinstall (identity #%d) although "
                                 "A had pinned identity #%d and automatic trust is off" % (rec["tok"], rec["inc"], self.pinned))
        if client is self.b and rec["dir"] in ("a2b", "a2g"):
            if rec["inc"] != self.b_inc:
                pass
            elif self.pinned is not None and self.pinned != self.b_inc and not self.auto:
                self.violate("changed-identity-accepted/encrypted-for-new-identity",
                             "B (identity #%d) decrypted A's message tok %d although A had pinned identity #%d and automatic "
                             "trust is off" % (self.b_inc, rec["tok"], self.pinned))

    def on_client_stanza(self, client, cid, node, data):
        if client is self.a and node.tag == "iq" and node["xmlns"] == "encrypt" and node["type"] == "get":
            # a bundle fetch: the first identity A sees for B is the one the server holds now
            for u in node.child("key").children:
                if u["jid"] == self.b.jid and self.pinned is None:
                    self.pinned = self.b_inc

    # ---------------------------------------------------------------- helpers
    def send(self, frm, to, direction):
        c03 = _S["c03"]
        self.tok += 1
        tok = self.tok
        inc = self.b_inc

        to_jid = self.gj if direction in ("a2g", "b2g") else to.jid

        def op():
            ent, fields = c03.compose("text", to_jid, self.seed, tok)
            self.sent[(frm.jid, ent.getId())] = {"dir": direction, "inc": inc, "tok": tok, "delivered": 0,
                                                  "body": fields["conversation"], "after": self.reinstalled_since_pin(),
                                                  "auto": self.auto}
            frm.app.toLower(ent)
        frm.post_op(op)

    def reinstalled_since_pin(self):
        return self.pinned is not None and self.pinned != self.b_inc

    def read_b_identity(self):
        m = self.b.stack.getProp("profile").axolotl_manager
        self.b_keys[self.b_inc] = m.identity.getPublicKey()

    def check_pin(self, when):
        """Read A's stored pin for B through the store API and compare with the model."""
        if not self.a.alive or self.a.stack is None or self.pinned is None:
            return
        store = self.a.stack.getProp("profile").axolotl_manager._store
        rid = PH["B"]
        trusted = [i for i, k in sorted(self.b_keys.items()) if store.isTrustedIdentity(rid, k)]
        known = sorted(self.b_keys)
        if self.auto and len(trusted) == 1 and trusted[0] >= self.pinned:
            # automatic trust: the pin follows the newest identity A has come across (bundle fetch or first message)
            self.pinned = trusted[0]
        if len(known) >= 2 and trusted == known:
            self.violate("pin/missing", "%s: A's store trusts every identity of B (%s): no pin is stored although identity #%d "
                         "was seen first" % (when, trusted, self.pinned))
        elif self.pinned not in trusted:
            self.violate("pin/%s" % ("replaced-without-autotrust" if not self.auto else "wrong"),
                         "%s: A's store trusts identities %s of B, the model says #%d is pinned (autotrust=%s)"
                         % (when, trusted, self.pinned, self.auto))
        elif len(trusted) > 1:
            self.violate("pin/ambiguous", "%s: A's store trusts %s" % (when, trusted))
        elif self.reinstalled_since_pin():
            self.probe("pin_kept_after_reinstall")

    # ---------------------------------------------------------------- script
    def settle(self):
        if not self.wait_quiescent(120):
            self.status = "stuck"
            return False
        return True

    def director(self):
        k = self.k
        for c in (self.a, self.b, self.c):
            c.start()
        if not self.wait_until(lambda: all(self.ready.get(n) for n in "ABC"), 120) or not self.settle():
            self.status = self.status or "stuck-at-login"
            return
        self.read_b_identity()
        restarted = False
        for i, op in enumerate(self.case["ops"]):
            if self.violations:
                break
            for c, nme in ((self.a, "A"), (self.b, "B")):
                if not self.ready.get(nme):
                    if not self.wait_until(lambda nme=nme: self.ready.get(nme), 60):
                        self.status = "%s-not-logged-in" % nme
                        return
            if op == "a2b":
                if self.reinstalled_since_pin():
                    self.after_reinstall_attempts += 1
                self.send(self.a, self.b, "a2b")
            elif op == "b2a":
                if self.reinstalled_since_pin() or (self.pinned is not None and self.pinned != self.b_inc):
                    self.after_reinstall_attempts += 1
                self.send(self.b, self.a, "b2a")
            elif op == "a2g":
                if self.reinstalled_since_pin():
                    self.after_reinstall_attempts += 1
                self.probe("group_message_to_changed_identity" if self.reinstalled_since_pin() else "group_message")
                self.send(self.a, self.b, "a2g")
            elif op == "b2g":
                if self.reinstalled_since_pin() or (self.pinned is not None and self.pinned != self.b_inc):
                    self.after_reinstall_attempts += 1
                    self.probe("group_message_from_changed_identity")
                self.send(self.b, self.a, "b2g")
            elif op == "c2a":
                self.send(self.c, self.a, "c2a")
            elif op == "reinstall_b":
                self.on_fault("reinstall", "B", {})
                self.ready["B"] = False
                self.b.kill()
                self.b.wipe()
                acc = self.server.account(self.b.jid)
                acc.keys = None
                acc.offline = []
                k.sleep(1.2)
                self.b_inc += 1
                self.b.start()
                if not self.wait_until(lambda: self.ready.get("B"), 120) or not self.settle():
                    self.status = self.status or "stuck-after-reinstall"
                    return
                self.read_b_identity()
            elif op == "notify_identity":
                from doubles.refcodec import Node
                if self.reinstalled_since_pin():
                    self.after_reinstall_attempts += 1
                    self.probe("identity_change_notification_after_reinstall")
                self.nid = getattr(self, "nid", 0) + 1
                self.server.to_jid(self.a.jid, Node("notification", {"from": self.b.jid, "type": "encrypt", "id": "idn-%d" % self.nid,
                                                                     "t": str(self.server.now())}, [Node("identity")]))
                self.kick_server()
            elif op in ("autotrust_on", "autotrust_off"):
                v = op == "autotrust_on"
                if v != self.auto:
                    self.probe("autotrust_toggled_while_connected")
                self.auto = v
                self.a.autotrust = v
                S = convo.S()
                self.a.post_op(lambda v=v: self.a.stack.setProp(S["PROP_IDENTITY_AUTOTRUST"], v))
            elif op == "restart_a":
                self.on_fault("clean_restart", "A", {})
                self.ready["A"] = False
                self.a.kill()
                k.sleep(1.2)
                self.a.start()
                restarted = True
                if not self.wait_until(lambda: self.ready.get("A"), 120):
                    self.status = "stuck-after-restart"
                    return
            if not self.settle():
                return
            self.check_pin("after op %d (%s)" % (i, op))
            if restarted and op == "restart_a" and self.reinstalled_since_pin() and not self.violations:
                self.probe("pin_enforced_after_restart")
        self.status = self.status or "done"

    # ---------------------------------------------------------------- final oracle
    def judge(self, kstatus):
        if self.status != "done" or kstatus != "finished":
            if not self.violations:
                self.violate("liveness/%s" % (self.status or kstatus), self.stuck_report())
            return
        for key, rec in self.sent.items():
            auto = rec["auto"]
            d = rec["delivered"]
            if d > 1:
                self.violate("delivery/duplicate", "message tok %d shown %d times" % (rec["tok"], d))
            if rec["dir"] == "c2a" and d != 1:
                self.violate("delivery/lost/unrelated-contact", "C's message tok %d to A was delivered %d times" % (rec["tok"], d))
            if not rec["after"]:
                if d != 1 and rec["dir"] in ("a2b", "b2a") and rec["inc"] == 0 and self.b_inc == 0:
                    self.violate("delivery/lost/before-any-reinstall", "tok %d (%s) delivered %d times" % (rec["tok"], rec["dir"], d))
                continue
            if auto:
                if d != 1:
                    self.violate("autotrust/messaging-did-not-resume/%s" % rec["dir"],
                                 "automatic trust is on, yet message tok %d (%s) sent after B's reinstall was delivered %d times"
                                 % (rec["tok"], rec["dir"], d))
                else:
                    self.probe("messaging_resumed_with_autotrust")
            else:
                if d == 0:
                    self.probe("untrusted_first_message_refused" if rec["dir"] == "b2a" else "untrusted_bundle_refused")
        if self.b_inc > 0 and self.pinned == self.b_inc and self.pinned != 0:
            self.probe("autotrust_replaced_pin")


def run(case):
    w = W(case)
    try:
        ks = w.run()
        w.judge(ks)
    finally:
        w.finish()
    return w.result(w.after_reinstall_attempts > 0 or bool(w.violations))
