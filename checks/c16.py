"""C16 — connection lifecycle: login, failure, stream error, keep-alive and reconnect.

World W1-full: the complete default stack + application double, real asyncore/socket dispatcher
over SimSocket, real handshake-worker and keep-alive threads under virtual time, against the Noise
responder with a scripted stanza server.  A generated history fixes, per connection, how the
connect ends (refused / accepted), what the server answers to the login (success / failure /
silence), how and when the connection ends (stream error kinds, peer close, reset, application
disconnect request, unanswered / late pongs) and whether the application reconnects.  A small
reference machine is the oracle; a transparent probe right above the network layer and the
application layer are the two observers."""
from sim.rng import stream
from worlds import wire, fullwire
from doubles.refcodec import Node

PROP = "C16"
LEVEL = "exploration"
RULE = ("case = dispatcher (asyncore/socket) x reconnect option x ping interval (0 or 2-6 virtual s) x 1-6 scripted "
        "connections, each: connect ok/refused, login success/failure/silence, end = stream error (conflict, ack, "
        "xml-not-well-formed) | peer close | reset | application disconnect request (while up or while being established) | "
        "pongs never/late from the j-th ping | all pongs on time for several intervals, timing of the end relative to login, "
        "application reconnects or not x TCP chunking/latency x scheduling; the first login of a fresh account is passive and "
        "uploads keys (library-initiated reconnect); distinct = distinct schedule+event digests; non-trivial = at least two "
        "connections were established and ended in the run")
COMPONENTS = {"real": ["whole default stack (yowsup.stacks.YowStackBuilder.getDefaultLayers)", "YowInterfaceLayer (reconnect logic)",
                       "YowNetworkLayer + AsyncoreConnectionDispatcher / SocketConnectionDispatcher", "YowIqProtocolLayer + "
                       "YowPingThread", "YowAuthenticationProtocolLayer", "YowNoiseLayer + handshake worker", "AxolotlControlLayer "
                       "(passive login, key upload, reboot)", "YowStack.loop (deferred events)", "asyncore", "sqlite key store"],
              "stub": ["Noise responder + scripted stanza server", "SimSocket/select", "baton kernel with virtual clock",
                       "transparent probe layer above the network layer", "application double"]}
ASSUMPTIONS = ["six 1.17 shim", "consonance randint(float) coerced", "alternation of up/down announcements is NOT demanded (the "
               "library reconnects from inside the propagation of the deferred DISCONNECTED event, so upper layers see "
               "connected(k+1) before disconnected(k)); accounting is", "disconnect requests are only issued while a "
               "connection is up or being established", "pong timing keeps a margin from the tick (the instant in between is not judged)"]
BUDGET = {"quick": (1500, 170), "thorough": (80000, 2700)}
FAULTS = ["srv_garbage_frame", "connect_refused", "peer_fin", "rst", "srv_no_pong", "srv_late_pong", "stream_error", "login_failure", "tcp_cut"]
PROBES = ["write_raced_with_close_by_other_thread", "failure_or_stream_error_crossed_client_close", "auto_reconnect_after_stream_error", "no_reconnect_after_conflict", "no_reconnect_option_off", "ping_timeout_disconnect",
          "pings_all_answered_no_disconnect", "passive_key_upload_reboot", "failure_closes_connection", "socket_dispatcher",
          "app_disconnect_while_connecting", "connected_before_previous_disconnected"]
SHRINK = ["conns"]
ENDS = ["stream_error:conflict", "stream_error:ack", "stream_error:xml-not-well-formed", "stream_error:system-shutdown", "garbage_frame", "peer_close", "rst", "app_disconnect",
        "ping_never", "ping_late", "ping_ok_then_close", "app_disconnect_early", "app_disconnect_connecting"]
_S = {}


def setup():
    fullwire.setup_process()
    from yowsup.layers import YowLayer
    S = fullwire.S()

    class Probe(YowLayer):
        world = None

        def __init__(self):
            super(Probe, self).__init__()
            self.world = Probe.world

        def onEvent(self, ev):
            self.world.on_probe_event(ev)
            return False

    _S["Probe"] = Probe
    _S.update(S)
    # observation only: was the socket still open when a write entered the network layer / the dispatcher?  A write that began on an open
    # socket which another thread closed before the bytes were handed over fails in the kernel and writes nothing: that is
    # a race the OS resolves, not a write to a connection that is down.
    from yowsup.layers.network.dispatcher.dispatcher_asyncore import AsyncoreConnectionDispatcher
    from yowsup.layers.network.dispatcher.dispatcher_socket import SocketConnectionDispatcher

    def observed(orig):
        def method(self, *a):
            w = _CUR.get("w")
            if w is None:
                return orig(self, *a)
            sock = getattr(getattr(self, "_dispatcher", self), "socket", None)
            name = w.k.cur.name if w.k.cur is not None else None
            st = w.write_ctx.setdefault(name, [])
            st.append((sock is not None and not getattr(sock, "closed", True),
                       getattr(self, "state", None) == S["YowNetworkLayer"].STATE_CONNECTED))
            try:
                return orig(self, *a)
            finally:
                st.pop()
        return method

    AsyncoreConnectionDispatcher.initiate_send = observed(AsyncoreConnectionDispatcher.initiate_send)
    SocketConnectionDispatcher.sendData = observed(SocketConnectionDispatcher.sendData)
    S["YowNetworkLayer"].send = observed(S["YowNetworkLayer"].send)


_CUR = {}


def total(tier):
    return BUDGET[tier][0]


def case(idx, tier, base):
    seed = base * (1 << 20) + idx
    r = stream(seed, "workload")
    ping = r.choice([0, 1, 2, 3, 4, 6])
    conns = []
    for i in range(r.randint(1, 6)):
        c = {"connect": "refused" if r.random() < 0.12 else "ok",
             "login": r.choice(["success", "success", "success", "success", "failure", "silent"]),
             "end": r.choice(ENDS), "t": r.choice([0.0, 0.02, 0.3, 1.5, 4.0]), "app_reconnect": r.random() < 0.8,
             "j": r.randint(1, 3)}
        if c["end"].startswith("ping") and ping == 0:
            c["end"] = "peer_close"
        if ping and r.random() < 0.3:
            # the scripted end falls together with a keep-alive tick (the ping thread is sending while the connection ends)
            c["t"] = float(ping * r.choice([1, 1, 2]))
        conns.append(c)
    net = wire.draw_net(r)
    net["short_send_p"] = r.choice([0.0, 0.0, 0.3])
    net["lat"] = r.choice([[0.0001, 0.001], [0.0005, 0.02], [0.0, 0.0]])
    return {"seed": seed, "dispatcher": "socket" if r.random() < 0.25 else "asyncore", "ping": ping,
            "reconnect": r.random() < 0.7, "conns": conns, "sched": wire.draw_sched(r), "net": net}


def repair(case):
    return case if case.get("conns") else None


def simplify(case):
    s = case["sched"]
    if s.get("preempt") != "none" or s.get("policy") != "lowest":
        c = dict(case)
        c["sched"] = {"policy": "lowest", "sticky": 0.0, "preempt": "none", "p": 0.0}
        yield c
    if case["net"].get("short_send_p") or case["net"].get("piece") != [4096, 65536]:
        c = dict(case)
        c["net"] = dict(case["net"], short_send_p=0.0, piece=[4096, 65536], recv_cap=1024, lat=[0.0, 0.0])
        yield c
    if case.get("dispatcher") != "asyncore":
        c = dict(case)
        c["dispatcher"] = "asyncore"
        yield c
    for i, cn in enumerate(case["conns"]):
        if cn["login"] != "success":
            c = dict(case)
            c["conns"] = [dict(x) for x in case["conns"]]
            c["conns"][i]["login"] = "success"
            yield c
        if cn["t"]:
            c = dict(case)
            c["conns"] = [dict(x) for x in case["conns"]]
            c["conns"][i]["t"] = 0.0
            yield c


class W(fullwire.FullWorld):
    def __init__(self, case):
        super(W, self).__init__(case["seed"], case["sched"], case["net"], dispatcher=case["dispatcher"], ping=case["ping"],
                                reconnect=case["reconnect"], decisions=case.get("decisions"), max_time_s=4000)
        self.case = case
        self.script = case["conns"]
        self.srv_rng = stream(case["seed"], "server")
        self.probe_events = []    # (steps, short)
        self.attempts = 0         # connect attempts made (SimNet.connect_count)
        self.app_disc = 0
        self.pings = {}           # conn no -> [(t, id, answered?)]
        self.injected = []        # (conn no, kind) failures / stream errors actually sent
        self.end_fired = {}
        self.ping_timeouts = []   # conn-attempt index at which the app saw DISCONNECT reason Ping Timeout
        self.keys_uploaded = False
        self.app_disc_requests = 0
        self.expected_more = True
        self.app_reconnected = set()
        self.client_pings = []
        self.connecting_disc_requests = 0
        self.disc_requested_attempts = set()
        self.injected_at = {}
        self.write_ctx = {}
        _CUR["w"] = self

        def tag():
            st = self.write_ctx.get(self.k.cur.name if self.k.cur is not None else None)
            if st and any(x[0] for x in st):
                return ("began-while-open",)
            return ()
        self.net.bad_send_tag = tag

    def violate(self, sig, detail):
        super(W, self).violate("C16/" + sig, detail)

    def spec(self, attempt):
        return self.script[attempt] if attempt < len(self.script) else None

    def build(self):
        S = _S
        from consonance.structs.keypair import KeyPair as CK
        from consonance.structs.publickey import PublicKey as CPub
        from consonance.structs.privatekey import PrivateKey as CPriv
        from doubles.noise_server import keypair_from_private
        from sim.rng import rbytes
        import os
        kr = stream(self.seed, "statics")
        self.server_key = keypair_from_private(rbytes(kr, 32))
        cli = keypair_from_private(rbytes(kr, 32))
        conf = S["Config"](phone=fullwire.PHONE, client_static_keypair=CK(CPub(cli.public.data), CPriv(cli.private.data)),
                           server_static_public=CPub(bytes(self.server_key.public.data)))
        os.makedirs(os.path.join(self.cfg_home, "yowsup", fullwire.PHONE), exist_ok=True)
        S["AxolotlManager"].COUNT_GEN_PREKEYS = 4
        S["AxolotlManager"].THRESHOLD_REGEN = 2
        S["App"].world = self
        _S["Probe"].world = self
        defaults = S["YowStackBuilder"].getDefaultLayers()
        layers = defaults[:1] + (_S["Probe"],) + defaults[1:] + (S["App"],)
        from yowsup.stacks import YowStack
        st = YowStack(layers, reversed=False)
        st.setProfile(S["YowProfile"](fullwire.PHONE, conf))
        st.setProp(S["YowIqProtocolLayer"].PROP_PING_INTERVAL, self.ping)
        st.setProp(S["YowInterfaceLayer"].PROP_RECONNECT_ON_STREAM_ERR, bool(self.reconnect))
        st.setProp(S["YowNetworkLayer"].PROP_DISPATCHER, S["YowNetworkLayer"].DISPATCHER_SOCKET
                   if self.dispatcher == "socket" else S["YowNetworkLayer"].DISPATCHER_ASYNCORE)
        self.stack = st
        self.netlayer = st.getLayer(0)
        self.app = st.getLayer(len(layers) - 1)
        self.layers = [st.getLayer(i) for i in range(len(layers))]
        self.net.connect_plan = [c["connect"] for c in self.script]
        # observation only: when the keep-alive issues a ping (client clock) — the real method does the work
        iq = [l for l in st.getLayer(len(layers) - 2).sublayers if l.__class__.__name__ == "YowIqProtocolLayer"][0]
        orig_wait = iq.waitPong
        w = self

        def waitPong(pid, *a, **kw):
            rec = {"t": w.k.now, "id": pid, "attempt": w.net.connect_count - 1, "pong_at": None}
            w.client_pings.append(rec)
            r = orig_wait(pid, *a, **kw)
            if r is False:
                # the layer refused to register it (a keep-alive thread that does not belong to this connection)
                w.client_pings.remove(rec)
            return r

        iq.waitPong = waitPong
        if self.dispatcher == "socket":
            self.probe("socket_dispatcher")

    # ---------------------------------------------------------------- observers
    def on_probe_event(self, ev):
        short = ev.getName().split(".")[-1]
        self.probe_events.append((self.k.steps, short))
        self.k.note("probe event", short)

    def on_app_entity(self, e):
        super(W, self).on_app_entity(e)
        if e.getTag() == "iq":
            try:
                i = e.getId()
            except Exception:
                i = None
            for rec in self.client_pings:
                if rec["id"] == i and rec["pong_at"] is None:
                    rec["pong_at"] = self.k.now

    def on_app_event_pre(self, layer, ev):
        super(W, self).on_app_event_pre(layer, ev)
        short = ev.getName().split(".")[-1]
        if short == "disconnect" and ev.getArg("reason") == "Ping Timeout":
            self.ping_timeouts.append(self.net.connect_count - 1)
        if short == "disconnected":
            j = self.app_disc
            self.app_disc += 1
            sp = self.spec(j)
            lib = bool(layer.reconnect)
            if sp is not None and sp.get("app_reconnect") and not lib and j + 1 < len(self.script) and not self.done:
                # the application reconnects (what YowInterfaceLayer itself does when its reconnect flag is set)
                self.k.note("app reconnects after attempt", j)
                self.app_reconnected.add(j)
                layer.connect()

    # ---------------------------------------------------------------- server behaviour
    def attempt_of(self, c):
        return c.conn.id - 1

    def on_transport(self, c):
        a = self.attempt_of(c)
        sp = self.spec(a) or {"login": "success", "end": "keep", "t": 0, "j": 1}
        c.spec = sp
        c.attempt = a
        if sp["login"] == "success":
            c.send(self.success_node())
            c.logged_in = True
            self.schedule_end(c, sp)
        elif sp["login"] == "failure":
            c.send(Node("failure", {"reason": "401"}))
            self.injected.append((a, "failure"))
            self.injected_at[(a, "failure")] = self.k.now
            self.faults["login_failure"] = self.faults.get("login_failure", 0) + 1
        else:
            # silence: nothing is said; the scripted end still applies (the application may give up)
            self.schedule_end(c, sp)

    def schedule_end(self, c, sp):
        end = sp["end"]
        t = sp.get("t", 0.0)
        if end.startswith("stream_error"):
            self.k.call_later(t, lambda: self.fire_stream_error(c, end.split(":")[1]))
        elif end == "garbage_frame":
            # a frame that does not decrypt: the receive path raises, which both dispatchers answer by closing the
            # connection and announcing it down
            def garbage():
                if not c.dead:
                    from doubles.noise_server import frame
                    self.k.note("srv sends a frame that does not decrypt", c.no)
                    self.faults["srv_garbage_frame"] = self.faults.get("srv_garbage_frame", 0) + 1
                    self.net.server_send(c.conn, frame(b"\x13" * 40))
            # not right behind the login result: frames queued during the handshake are handled on the handshake thread,
            # where a failure ends that thread and nothing else (observed, not part of this property)
            self.k.call_later(max(t, 0.3), garbage)
        elif end == "peer_close":
            self.k.call_later(t, lambda: (self.k.note("srv closes", c.no), c.close()))
        elif end == "rst":
            self.k.call_later(t, lambda: (self.k.note("srv resets", c.no), c.close(rst=True)))
        elif end == "ping_ok_then_close":
            life = max(1, self.ping) * 3.4
            self.k.call_later(life, lambda: (self.k.note("srv closes", c.no), c.close()))
        # app_disconnect / app_disconnect_early are driven by the driver task; ping_* by on_ping

    def fire_stream_error(self, c, kind):
        if c.dead:
            return
        self.k.note("srv stream error", c.no, kind)
        ch = [Node(kind)]
        if kind == "conflict":
            ch.append(Node("text", None, None, b"Replaced by new connection"))
        c.send(Node("stream:error", None, ch))
        self.injected.append((c.attempt, "stream:error:" + kind))
        self.injected_at[(c.attempt, "stream:error:" + kind)] = self.k.now
        self.faults["stream_error"] = self.faults.get("stream_error", 0) + 1

    def on_stanza(self, c, n):
        if n.tag == "iq" and n["xmlns"] == "encrypt" and n["type"] == "set":
            self.keys_uploaded = True
            c.upload_seen = True
        super(W, self).on_stanza(c, n)

    def on_ping(self, c, n):
        lst = self.pings.setdefault(c.no, [])
        idx = len(lst) + 1
        sp = getattr(c, "spec", None) or {}
        end = sp.get("end", "")
        rec = {"t": self.k.now, "id": n["id"], "answered_at": None, "attempt": getattr(c, "attempt", None)}
        lst.append(rec)
        if end == "ping_never" and idx >= sp.get("j", 1):
            self.faults["srv_no_pong"] = self.faults.get("srv_no_pong", 0) + 1
            return
        if end == "ping_late" and idx >= sp.get("j", 1):
            self.faults["srv_late_pong"] = self.faults.get("srv_late_pong", 0) + 1
            delay = self.ping * 1.5

            def late():
                rec["answered_at"] = self.k.now
                c.send(Node("iq", {"type": "result", "from": "s.whatsapp.net", "id": n["id"]}))
            self.k.call_later(delay, late)
            return
        rec["answered_at"] = self.k.now
        c.send(Node("iq", {"type": "result", "from": "s.whatsapp.net", "id": n["id"]}))

    # ---------------------------------------------------------------- driver
    def t_driver(self):
        S = _S
        k = self.k
        a = 0
        deadline_total = k.now + int(2500e6)
        while k.now < deadline_total:
            # wait for attempt a to start; if none starts for a while the history is over
            if not self.wait_until(lambda: self.net.connect_count >= a + 1, 12 + 2 * max(1, self.ping)):
                break
            conn = self.net.conns[a]
            sp = self.spec(a)
            if sp is not None and sp["connect"] == "ok" and sp["end"] in ("app_disconnect", "app_disconnect_early",
                                                                         "app_disconnect_connecting"):
                if sp["end"] == "app_disconnect_connecting":
                    # immediately: the connect has been requested but is not established yet
                    self.probe("app_disconnect_while_connecting")
                    req_time = k.now
                    self.k.note("app disconnect request while connecting, attempt", a)
                    if self.netlayer.state == S["YowNetworkLayer"].STATE_CONNECTING:
                        self.connecting_disc_requests += 1
                elif sp["end"] == "app_disconnect_early":
                    self.wait_until(lambda: self.conn_for(a) is not None or conn.client_closed, 20)
                    self.probe("app_disconnect_while_connecting")
                else:
                    self.wait_until(lambda: self.logged_in(a) or conn.client_closed, 60)
                    k.sleep(sp.get("t", 0.0))
                if not conn.client_closed and self.netlayer.state in (S["YowNetworkLayer"].STATE_CONNECTED,
                                                                     S["YowNetworkLayer"].STATE_CONNECTING):
                    self.k.note("app disconnect request, attempt", a)
                    self.app_disc_requests += 1
                    self.disc_requested_attempts.add(a)
                    try:
                        self.app.disconnect()
                    except Exception as e:  # noqa
                        import traceback
                        self.violate("disconnect-request-raises:%s" % type(e).__name__,
                                     "attempt %d (%s dispatcher): the application's disconnect request raised: %s"
                                     % (a, self.dispatcher, traceback.format_exc()[-500:]))
            # wait until the connection of this attempt is over at the socket (bounded when an end is scripted)
            life = 150 + 8 * max(1, self.ping)
            if not self.wait_until(lambda: conn.client_closed, life):
                if sp is None or self.should_stay_up(a):
                    break      # nothing is scripted to end this connection: the history ends here
                if not self.violations:
                    self.violate("liveness/connection-not-closed", "attempt %d (%s): the connection was still open %d virtual s "
                                 "after it started; %s" % (a, sp, life, self.stuck()))
                break
            a += 1
        # end of history: the application closes whatever is still up (a request while a connection is up), then
        # everything deferred gets delivered
        self.done = True
        for _ in range(3):
            k.sleep(1.0)
            if self.netlayer.state in (S["YowNetworkLayer"].STATE_CONNECTED, S["YowNetworkLayer"].STATE_CONNECTING):
                self.k.note("app final disconnect request")
                try:
                    self.app.disconnect()
                except Exception as e:  # noqa
                    import traceback
                    self.violate("disconnect-request-raises:%s" % type(e).__name__,
                                 "final disconnect request (%s dispatcher) raised: %s" % (self.dispatcher, traceback.format_exc()[-500:]))
            else:
                break
        k.sleep(3.0 + 2 * max(1, self.ping))
        k.finish()

    def should_stay_up(self, a):
        sp = self.script[a]
        if sp["connect"] != "ok":
            return False
        if sp["login"] == "failure":
            return False
        if sp["login"] == "silent" and sp["end"].startswith(("stream_error", "ping")):
            return sp["end"].startswith("ping")
        return False

    def conn_for(self, attempt):
        for c in self.conns:
            if c.conn.id - 1 == attempt:
                return c
        return None

    def logged_in(self, attempt):
        c = self.conn_for(attempt)
        return c is not None and getattr(c, "logged_in", False)

    def stuck(self):
        return "blocked=%s errors=%s locks=%s" % (
            [(b["task"], b["on"]) for b in self.k.blocked_report() if b["task"] not in ("driver",)],
            [(n, repr(e)) for (n, e, tb) in self.k.errors][:3], self.locks_held())

    # ---------------------------------------------------------------- oracle
    def judge(self):
        attempts = self.net.connect_count
        refused = sum(1 for i in range(min(attempts, len(self.script))) if self.script[i]["connect"] != "ok")
        base_refused = refused
        for name, evs in (("probe", [e[1] for e in self.probe_events]), ("application", [e[1] for e in self.app_events])):
            # attempts that never came up (refused, or cut by a disconnect request while being established)
            refused = max(base_refused, attempts - evs.count("connected"))
            U = D = 0
            first_inversion = False
            for e in evs:
                if e == "connected":
                    if U > D:
                        first_inversion = True
                    U += 1
                elif e == "disconnected":
                    D += 1
                if D > U + refused:
                    self.violate("announcements/%s/down-without-up" % name, "%s saw %d down announcements after only %d up "
                                 "(+%d attempts that never came up): %s" % (name, D, U, refused, evs[-8:]))
                    break
            if first_inversion:
                self.probe("connected_before_previous_disconnected")
            if self.k.status == "finished" and not (U <= D <= U + refused):
                self.violate("announcements/%s/%s" % (name, "missing-down" if D < U else "extra-down"),
                             "%s saw %d connected and %d disconnected announcements (%d attempts were refused): each connection "
                             "announced up must be announced down exactly once; events=%s" % (name, U, D, refused, evs[-12:]))
        pe = [e[1] for e in self.probe_events]
        if pe.count("auth") != pe.count("connected"):
            self.violate("login/auth-per-connect", "%d connects were announced but %d login attempts (auth events) were triggered"
                         % (pe.count("connected"), pe.count("auth")))
        for c in self.conns:
            if c.hellos > 1:
                self.violate("login/two-handshakes-on-one-connection", "connection %d received %d ClientHello messages" % (c.no, c.hellos))
        # success => one AUTHED + one success entity (when the connection lived long enough to deliver it)
        sent_success = sum(1 for c in self.conns if getattr(c, "logged_in", False))
        authed = pe.count("authed")
        succ_entities = sum(1 for e in self.app_entities if e[1] == "success")
        if authed > sent_success or succ_entities > sent_success:
            self.violate("login/authenticated-announced-too-often", "%d success replies were sent, %d authenticated events, %d success "
                         "entities" % (sent_success, authed, succ_entities))
        if authed != succ_entities:
            self.violate("login/authed-event-vs-entity", "%d authenticated events but %d success entities reached the application"
                         % (authed, succ_entities))
        # failure / stream error => delivered to the app and the connection is closed by the client
        for (a, kind) in self.injected:
            c = self.conn_for(a)
            tag = "failure" if kind == "failure" else "stream:error"
            if c is None:
                continue
            delivered = c.conn.s2c.inflight == 0 and not c.conn.s2c.buf
            got = [e for e in self.app_entities if e[1] == tag]
            if c.closed_at is None and not c.conn.client_closed:
                self.violate("%s/connection-not-closed" % ("failure" if tag == "failure" else "stream-error"),
                             "attempt %d: the server sent %s but the client never closed the connection; %s" % (a, kind, self.stuck()))
            elif tag == "failure":
                self.probe("failure_closes_connection")
        n_fail = sum(1 for x in self.injected if x[1] == "failure")
        n_se = sum(1 for x in self.injected if x[1].startswith("stream:error"))
        got_fail = sum(1 for e in self.app_entities if e[1] == "failure")
        got_se = sum(1 for e in self.app_entities if e[1] == "stream:error")
        if got_fail > n_fail or got_se > n_se:
            self.violate("failure-or-stream-error/extra", "application saw %d failures / %d stream errors, the server sent %d / %d"
                         % (got_fail, got_se, n_fail, n_se))
        # every injected one whose connection was still up when it arrived must have been delivered
        for (a, kind) in self.injected:
            c = self.conn_for(a)
            if c is None or c.closed_at is not None and kind != "failure":
                pass
        if (got_fail < n_fail or got_se < n_se) and not self.violations:
            # only a violation when the connection had not been ended by something else before delivery
            lost = []
            for (a, kind) in self.injected:
                sp = self.script[a] if a < len(self.script) else {}
                if sp.get("end") in ("app_disconnect_early",) or a in self.disc_requested_attempts:
                    # the application itself closed this connection; what the server sent may have arrived after that
                    continue
                c = self.conn_for(a)
                closed_at = c.conn.client_closed_at if c is not None else None
                if c is None or c.conn.s2c.inflight or c.conn.s2c.buf or \
                        (closed_at is not None and closed_at <= self.injected_at.get((a, kind), closed_at + 1)):
                    # the client closed the connection (key-upload reconnect, its own timeout, ...) before it had read
                    # everything the server sent: the stanza crossed the client's close on the wire
                    self.probe("failure_or_stream_error_crossed_client_close")
                    continue
                lost.append((a, kind))
            if len(lost) > (got_fail + got_se):
                self.violate("failure-or-stream-error/not-delivered", "server sent %s; the application saw %d failures and %d "
                             "stream errors" % (self.injected, got_fail, got_se))
        # writes to a connection that is down
        # (a zero-length send — asyncore's loop flushing an empty buffer after select() — writes nothing)
        bad = [e for e in self.net.log if e[0] in ("send-after-close", "send-not-connected") and "began-while-open" not in e
               and e[2] > 0]
        if any("began-while-open" in e for e in self.net.log):
            self.probe("write_raced_with_close_by_other_thread")
        if bad:
            self.violate("write-to-down-connection", "%d writes were attempted on a connection that was down, e.g. %s" % (len(bad), bad[0][:2]))
        # automatic reconnect after a stream error — judged by counting attempts: every attempt beyond the first is caused by
        # the application double (recorded), by the key-upload reboot (at most one per passive connection that uploaded) or
        # by the library's stream-error reconnect (expected iff the option is on and the error is not a conflict)
        delivered_se = [e for e in self.app_entities if e[1] == "stream:error"]
        L_expected = 0
        n_conflict_or_off = 0
        for e in delivered_se:
            k2 = e[2].getErrorType()
            if self.reconnect and k2 != "conflict":
                L_expected += 1
            else:
                n_conflict_or_off += 1
        R_max = sum(1 for c in self.conns if c.passive and getattr(c, "upload_seen", False))
        extra = attempts - 1 - len(self.app_reconnected)
        if self.k.status == "finished" and not self.violations:
            if extra < L_expected:
                self.violate("reconnect/missing-after-stream-error", "%d stream errors that call for an automatic reconnect were "
                             "delivered, but only %d connection attempts are not explained by the application or the key-upload "
                             "reboot (attempts=%d)" % (L_expected, max(0, extra), attempts))
            elif extra > L_expected + R_max:
                self.violate("reconnect/unexpected%s" % ("-after-conflict-or-option-off" if n_conflict_or_off else ""),
                             "%d connection attempts; the application reconnected %d times, at most %d key-upload reboots, %d "
                             "stream errors call for a reconnect (%d do not: conflict or option off): %d attempts are unexplained"
                             % (attempts, len(self.app_reconnected), R_max, L_expected, n_conflict_or_off, extra - L_expected - R_max))
            elif L_expected:
                self.probe("auto_reconnect_after_stream_error")
            elif n_conflict_or_off and extra <= R_max:
                self.probe("no_reconnect_after_conflict" if any(e[2].getErrorType() == "conflict" for e in delivered_se)
                           else "no_reconnect_option_off")
        # keep-alive (client clock: issue time of each ping, time its pong was processed)
        if self.ping:
            P = self.ping * 1e6
            by_attempt = {}
            for rec in self.client_pings:
                by_attempt.setdefault(rec["attempt"], []).append(rec)
            for a, lst in by_attempt.items():
                c = self.conn_for(a)
                timed_out = a in self.ping_timeouts
                verdict = False
                for rec in lst:
                    due = rec["t"] + P
                    ended = c is not None and c.closed_at is not None and c.closed_at < due - 0.2e6
                    if ended:
                        continue
                    if rec["pong_at"] is None or rec["pong_at"] > due + 0.3e6:
                        verdict = True
                        break
                    if rec["pong_at"] > due - 0.3e6:
                        verdict = None    # too close to the tick: not judged
                        break
                if verdict is None:
                    continue
                if timed_out and not verdict:
                    self.violate("keepalive/timeout-although-pongs-in-time", "attempt %d: the keep-alive closed the connection "
                                 "(Ping Timeout) although every pong was processed before the next ping was due: %s"
                                 % (a, [(r["t"], r["pong_at"]) for r in lst]))
                elif verdict and not timed_out and self.k.status == "finished":
                    last = lst[-1]["t"]
                    still_up_long = c is not None and (c.closed_at is None or c.closed_at > last + 2.5 * P)
                    if still_up_long and self.k.now > last + 2.5 * P:
                        self.violate("keepalive/no-timeout-with-unanswered-ping", "attempt %d: a ping was still unanswered when the "
                                     "next was due, yet the connection was not closed with reason Ping Timeout: %s"
                                     % (a, [(r["t"], r["pong_at"]) for r in lst]))
                elif timed_out:
                    self.probe("ping_timeout_disconnect")
                elif len(lst) >= 2:
                    self.probe("pings_all_answered_no_disconnect")
        if self.keys_uploaded:
            self.probe("passive_key_upload_reboot")
        for (name, e, tb) in self.k.errors:
            if name in ("driver", "server"):
                self.violate("harness-task:%s" % name, tb[-700:])
            elif name == "main":
                self.violate("main-thread-died:%s" % type(e).__name__, tb[-700:])


def run(case):
    w = W(case)
    w.build()
    k = w.k
    k.spawn(w.t_server, "server", daemon=True)
    k.spawn(w.t_main, "main")
    k.spawn(w.t_driver, "driver")
    status = w.run()
    if status != "finished" and not w.violations:
        w.violate("liveness/%s" % status, "kernel status %s; %s" % (status, w.stuck()))
    try:
        w.judge()
    except Exception:
        import traceback
        w.violate("harness-judge", traceback.format_exc()[-800:])
    w.finish()
    ended = sum(1 for c in w.conns if c.dead or c.conn.client_closed)
    return w.result(ended >= 2)
