"""C03 — end-to-end messaging: exactly-once authentic delivery, only ciphertext on the wire.

World W2: 2-4 accounts with the real stack (network layer with simulated dispatcher, coder,
AxolotlControl/Send/Receive, all protocol layers, application double) against the server double.
Generated conversation scripts; the scheduler owns the order in which the server processes and
delivers queued stanzas and when scripted operations are issued; faults: duplicate delivery of a
message, one corrupted ciphertext byte per message, clean restarts at quiescent points."""
from sim.rng import stream
from worlds import convo

PROP = "C03"
LEVEL = "exploration"
RULE = ("case = 2-4 accounts, 0-2 groups, script of 4-25 sends (1:1 or group; text, extended text, image, location, contact, "
        "link preview; every text field carries a unique token) + clean restarts at quiescent points + fault plan (<=1 "
        "duplicate delivery and <=1 corrupted ciphertext byte per (message, recipient), byte position uniform over the enc "
        "payload) + scheduling mode (uniform / ops-first bursts / ops-last) + prekey batch size; the scheduler decides every "
        "server processing/delivery step; distinct = distinct event-order digests; non-trivial = at least one message was "
        "delivered to an application through a session established in the run")
COMPONENTS = {"real": ["yowsup.layers.axolotl (control/send/receive)", "yowsup.axolotl.manager + sqlite store", "python-axolotl",
                       "yowsup.layers.protocol_messages / protocol_media / protocol_receipts / protocol_acks / all default protocol "
                       "layers", "yowsup.layers.coder", "yowsup.layers.network.YowNetworkLayer", "yowsup.layers.interface"],
              "stub": ["server double (doubles/wa_server.py)", "reference codec", "simulated dispatcher (one sendData per stanza)",
                       "event scheduler (worlds/convo.py)", "application double (acks messages and receipts like the demos)"]}
ASSUMPTIONS = ["six 1.17 shim", "actor assumption: one event at a time per account (no thread interleavings inside a client; "
               "those are W1's subject)", "Noise/segments layers are not in this world (C04/C11 cover them)",
               "sends are issued while the sender is logged in (after the non-passive success)",
               "restarts only at quiescent points, as the property states"]
BUDGET = {"quick": (1500, 150), "thorough": (60000, 2700)}
FAULTS = ["srv_dup_message", "srv_corrupt_enc", "clean_restart"]
PROBES = ["first_contact_key_fetch", "group_first_message", "group_media_first_message", "retry_receipt_path", "duplicate_path",
          "burst_before_answer", "delivery_after_restart", "pkmsg", "msg", "skmsg", "prekey_refill"]
SHRINK = ["ops"]
KINDS = ["text", "text", "text", "ext", "image", "location", "contact", "url"]
PHONES = {"A": "4915110000001", "B": "4915110000002", "C": "4915110000003", "D": "4915110000004"}
_S = {}


def setup():
    convo.setup_process()
    from yowsup.layers.protocol_messages.protocolentities import TextMessageProtocolEntity
    from yowsup.layers.protocol_messages.protocolentities.message_extendedtext import ExtendedTextMessageProtocolEntity
    from yowsup.layers.protocol_messages.protocolentities.attributes.attributes_message_meta import MessageMetaAttributes
    from yowsup.layers.protocol_messages.protocolentities.attributes.attributes_extendedtext import ExtendedTextAttributes
    from yowsup.layers.protocol_messages.protocolentities.attributes.attributes_image import ImageAttributes
    from yowsup.layers.protocol_messages.protocolentities.attributes.attributes_downloadablemedia import DownloadableMediaMessageAttributes
    from yowsup.layers.protocol_messages.protocolentities.attributes.attributes_location import LocationAttributes
    from yowsup.layers.protocol_messages.protocolentities.attributes.attributes_contact import ContactAttributes
    from yowsup.layers.protocol_media.protocolentities import ImageDownloadableMediaMessageProtocolEntity, \
        LocationMediaMessageProtocolEntity, ContactMediaMessageProtocolEntity, ExtendedTextMediaMessageProtocolEntity
    _S.update(locals())


def total(tier):
    return BUDGET[tier][0]


def case(idx, tier, base):
    seed = base * (1 << 20) + idx
    r = stream(seed, "workload")
    n = r.choice([2, 2, 3, 3, 4])
    names = ["A", "B", "C", "D"][:n]
    groups = []
    if n >= 2 and r.random() < 0.75:
        ng = r.choice([1, 1, 2])
        for g in range(ng):
            members = [x for x in names if r.random() < 0.8]
            if len(members) < 2:
                members = names[:2]
            groups.append(members)
    ops = []
    nsend = r.randint(4, 25)
    tok = 0
    for _ in range(nsend):
        who = r.choice(names)
        if groups and r.random() < 0.4:
            gi = r.randrange(len(groups))
            if who not in groups[gi]:
                who = r.choice(groups[gi])
            to = "G%d" % gi
        else:
            to = r.choice([x for x in names if x != who])
        ops.append({"op": "send", "who": who, "to": to, "kind": r.choice(KINDS), "tok": tok})
        tok += 1
        if r.random() < 0.08:
            ops.append({"op": "restart", "who": r.choice(names), "when": "quiescent"})
    faults = {}
    if r.random() < 0.6:
        for o in ops:
            if o["op"] == "send":
                x = r.random()
                if x < 0.12:
                    faults[str(o["tok"])] = {"dup": True}
                elif x < 0.24:
                    faults[str(o["tok"])] = {"corrupt": [r.random(), r.random(), r.random() < 0.5]}
                elif x < 0.28:
                    # both faults on one message: the corrupted stanza is delivered twice
                    faults[str(o["tok"])] = {"dup": True, "corrupt": [r.random(), r.random(), r.random() < 0.5]}
    return {"seed": seed, "names": names, "groups": groups, "ops": ops, "faults": faults,
            "sched": r.choice(["uniform", "uniform", "ops_first", "ops_last"]), "prekeys": r.choice([30, 40, 60]),
            "threshold": r.choice([1, 5, 10]), "codec_p": r.choice([0.0, 0.0, 0.2])}


def repair(case):
    if not any(o["op"] == "send" for o in case.get("ops", [])):
        return None
    return case


def simplify(case):
    if case.get("sched") != "fifo":
        c = dict(case)
        c["sched"] = "fifo"
        yield c
    if case.get("codec_p"):
        c = dict(case)
        c["codec_p"] = 0.0
        yield c
    for k in list(case.get("faults", {}).keys()):
        c = dict(case)
        c["faults"] = {a: b for a, b in case["faults"].items() if a != k}
        yield c
    for i, o in enumerate(case["ops"]):
        if o["op"] == "send" and o["kind"] != "text":
            c = dict(case)
            c["ops"] = [dict(x) for x in case["ops"]]
            c["ops"][i]["kind"] = "text"
            yield c
    if len(case["names"]) > 2:
        used = set()
        for o in case["ops"]:
            used.add(o["who"])
            if not o.get("to", "G").startswith("G"):
                used.add(o["to"])
        for g in case["groups"]:
            used.update(g)
        for nme in case["names"]:
            if nme not in used:
                c = dict(case)
                c["names"] = [x for x in case["names"] if x != nme]
                yield c


# ------------------------------------------------------------------------------------------ content
def token(seed, n):
    return "TK%dx%dQZ" % (seed % 100000, n)


def compose(kind, to_jid, seed, n):
    """Returns (entity, canonical field dict)."""
    S = _S
    r = stream(seed, "content/%d" % n)
    t = token(seed, n)
    meta = S["MessageMetaAttributes"](recipient=to_jid)

    def txt(label, ln=None):
        ln = ln if ln is not None else r.choice([0, 3, 20, 200])
        al = "abcdefghij KLMNOP0123456789éü中☃"
        return "%s-%s-%s" % (label, t, "".join(r.choice(al) for _ in range(ln)))

    if kind == "text":
        body = txt("body")
        return S["TextMessageProtocolEntity"](body, to=to_jid), {"conversation": body}
    if kind in ("ext", "url"):
        f = {"text": txt("text"), "matched_text": txt("http://m", 5), "canonical_url": txt("http://c", 5),
             "description": txt("desc"), "title": txt("title", 8), "jpeg_thumbnail": r.randbytes(r.choice([1, 50, 2000]))}
        attrs = S["ExtendedTextAttributes"](f["text"], f["matched_text"], f["canonical_url"], f["description"], f["title"],
                                            f["jpeg_thumbnail"], None)
        cls = S["ExtendedTextMessageProtocolEntity"] if kind == "ext" else S["ExtendedTextMediaMessageProtocolEntity"]
        return cls(attrs, meta), {"extended_text." + k: v for k, v in f.items()}
    if kind == "image":
        d = {"mimetype": "image/jpeg", "file_length": r.randint(1, 5000000), "file_sha256": r.randbytes(32),
             "url": txt("https://mmg.whatsapp.net/d/f", 10), "media_key": r.randbytes(32)}
        f = {"width": r.randint(1, 4000), "height": r.randint(1, 4000), "caption": txt("cap"),
             "jpeg_thumbnail": r.randbytes(r.choice([1, 100, 2048]))}
        dl = S["DownloadableMediaMessageAttributes"](d["mimetype"], d["file_length"], d["file_sha256"], d["url"], d["media_key"])
        attrs = S["ImageAttributes"](dl, f["width"], f["height"], f["caption"], f["jpeg_thumbnail"])
        out = {"image." + k: v for k, v in f.items()}
        out.update({"image.downloadablemedia_attributes." + k: v for k, v in d.items()})
        return S["ImageDownloadableMediaMessageProtocolEntity"](attrs, meta), out
    if kind == "location":
        f = {"degrees_latitude": round(r.uniform(-90, 90), 4), "degrees_longitude": round(r.uniform(-180, 180), 4),
             "name": txt("name", 6), "address": txt("addr", 12), "url": txt("http://l", 4)}
        attrs = S["LocationAttributes"](f["degrees_latitude"], f["degrees_longitude"], f["name"], f["address"], f["url"])
        return S["LocationMediaMessageProtocolEntity"](attrs, meta), {"location." + k: v for k, v in f.items()}
    if kind == "contact":
        f = {"display_name": txt("dn", 6), "vcard": txt("BEGIN:VCARD", 60).encode("utf-8")}
        attrs = S["ContactAttributes"](f["display_name"], f["vcard"])
        return S["ContactMediaMessageProtocolEntity"](attrs, meta), {"contact." + k: v for k, v in f.items()}
    raise ValueError(kind)


def extract(entity, fields):
    out = {}
    ma = getattr(entity, "message_attributes", None)
    for path in fields:
        obj = ma
        try:
            for part in path.split("."):
                obj = getattr(obj, part)
        except Exception:
            obj = "<missing>"
        if isinstance(obj, float):
            obj = round(obj, 4)
        out[path] = obj
    return out


# ------------------------------------------------------------------------------------------ world
class W(convo.World):
    PROP = "C03"

    def __init__(self, case):
        super(W, self).__init__(case["seed"], {"codec_p": case.get("codec_p", 0.0), "prekeys": case.get("prekeys", 8),
                                               "threshold": case.get("threshold", 2),
                                               "srv_order": "fifo" if case.get("sched") == "fifo" else "uniform",
                                               "policy": "lowest" if case.get("sched") == "fifo" else "random"})
        self.case = case
        self.names = case["names"]
        self.sent = {}          # (sender jid, id) -> record
        self.tokens = []        # all token byte strings issued so far
        self.ready = {}
        self.restarted = set()
        self.status = None
        self.retries_sent = {}
        gl = []
        for gi, members in enumerate(case["groups"]):
            gj = "%s-15000000%02d@g.us" % (PHONES[members[0]], gi)
            self.server.groups[gj] = {"creator": PHONES[members[0]] + "@s.whatsapp.net", "subject": "g%d" % gi,
                                      "participants": [PHONES[m] + "@s.whatsapp.net" for m in members]}
            gl.append(gj)
        self.gjids = gl
        for nme in self.names:
            self.add_client(nme, PHONES[nme])
        self.server.low_mark = max(2, case.get("prekeys", 30) - 6)   # ask for a refill early so that it happens in-run

    # ---------------------------------------------------------------- script
    def director(self):
        k = self.k
        mode = self.case.get("sched", "uniform")
        r = stream(self.seed, "director")
        for nme in self.names:
            self.clients[nme].start()
        # every account has completed its first login (keys uploaded) before the conversation starts: a registered
        # WhatsApp account always has keys on the server (a key result that omits a user is outside the quantifier)
        if not self.wait_until(lambda: all(self.ready.get(n) for n in self.names), 120):
            self.status = "stuck-at-login"
            return
        for op in self.case["ops"]:
            if self.violations and len(self.violations) >= 3:
                break
            if op["who"] not in self.clients:
                continue
            c = self.clients[op["who"]]
            if op["op"] == "restart":
                if not self.wait_quiescent(120):
                    self.status = "stuck"
                    return
                self.on_fault("clean_restart", c.name, {})
                self.ready[c.name] = False
                c.kill()
                k.sleep(1.2)   # a restarted process starts in a later second: its stanza ids get a new time prefix
                c.start()
                self.restarted.add(c.name)
                continue
            if mode in ("ops_last", "fifo"):
                if not self.wait_quiescent(120):
                    self.status = "stuck"
                    return
            elif mode == "uniform" and r.random() < 0.5:
                k.sleep(r.choice([0.001, 0.003, 0.01]))
            if not self.wait_until(lambda: self.ready.get(c.name), 120):
                self.status = "stuck"
                return
            if not self.quiescent():
                self.probe("burst_before_answer")
            c.post_op(lambda op=op, c=c: self.do_send(c, op))
        if not self.wait_quiescent(240):
            self.status = "stuck"
            return
        self.status = "done"

    def do_send(self, c, op):
        to = op["to"]
        if to.startswith("G"):
            gi = int(to[1:])
            if gi >= len(self.gjids):
                return
            to_jid = self.gjids[gi]
            if c.jid not in self.server.groups[to_jid]["participants"]:
                return
            rcpts = [j for j in self.server.groups[to_jid]["participants"] if j != c.jid]
        else:
            if to not in self.clients:
                return
            to_jid = self.clients[to].jid
            rcpts = [to_jid]
        entity, fields = compose(op["kind"], to_jid, self.seed, op["tok"])
        rec = {"id": entity.getId(), "sender": c.jid, "to": to_jid, "kind": op["kind"], "fields": fields, "tok": op["tok"],
               "rcpts": rcpts, "delivered": {}, "receipts": {}, "group": to.startswith("G")}
        self.sent[(c.jid, rec["id"])] = rec
        self.tokens.append(token(self.seed, op["tok"]).encode())
        f = self.case.get("faults", {}).get(str(op["tok"]))
        if f:
            for rj in rcpts:
                key = (rj, rec["id"], c.jid)
                if f.get("dup"):
                    self.server.dup_plan[key] = 1
                if f.get("corrupt"):
                    self.server.corrupt_plan[key] = f["corrupt"]
        c.app.toLower(entity)

    # ---------------------------------------------------------------- observation
    def on_app_entity(self, client, e):
        if e.getTag() == "success":
            S = convo.S()
            passive = client.stack.getProp(S["YowAuthenticationProtocolLayer"].PROP_PASSIVE, False)
            if not passive:
                self.ready[client.name] = True

    def on_app_event(self, client, ev):
        if ev.getName().endswith("network.disconnected"):
            self.ready[client.name] = False

    def on_client_stanza(self, client, cid, node, data):
        # confidentiality invariant on every stanza leaving a client (tree and bytes)
        for t in self.tokens:
            if t in data:
                self.violate("plaintext-on-wire/token", "%s emitted a <%s> stanza whose bytes contain the plaintext token %r"
                             % (client.name, node.tag, t))
                break
        if node.tag == "message":
            for c in node.children:
                if c.tag == "enc":
                    self.probe(c["type"] or "enc")
                    continue
                if c.tag == "participants":
                    self.probe("group_first_message")
                    for tn in c.children:
                        if tn.tag != "to" or any(x.tag != "enc" for x in tn.children):
                            self.violate("plaintext-on-wire/participants-child", "unexpected child in participants: %s" % tn.short())
                    continue
                self.violate("plaintext-on-wire/child-%s" % c.tag, "%s emitted a message stanza with a <%s> child: %s"
                             % (client.name, c.tag, node.short(1)))
        if node.tag == "receipt" and node["type"] == "retry":
            self.probe("retry_receipt_path")
            key = (client.jid, node["id"], node["to"])
            self.retries_sent[key] = self.retries_sent.get(key, 0) + 1
        if node.tag == "iq" and node["xmlns"] == "encrypt" and node["type"] == "get":
            self.probe("first_contact_key_fetch")
        if node.tag == "iq" and node["xmlns"] == "encrypt" and node["type"] == "set" and client.conn_count > 2:
            self.probe("prekey_refill")

    def on_app_message(self, client, e):
        frm = e.getFrom()
        is_group = e.isGroupMessage()
        author = e.getParticipant() if is_group else frm
        rec = self.sent.get((author, e.getId()))
        desc = "%s got <message id=%s from=%s participant=%s> as %s" % (client.name, e.getId(), frm,
                                                                      e.getParticipant() if is_group else None, type(e).__name__)
        if rec is None:
            self.violate("delivery/unknown-message", desc + ": nobody sent it")
            return
        kind = rec["kind"]
        if client.jid not in rec["rcpts"]:
            self.violate("delivery/wrong-recipient", desc + ": intended for %s" % rec["rcpts"])
            return
        got = extract(e, rec["fields"].keys())
        n = rec["delivered"].get(client.jid, 0) + 1
        rec["delivered"][client.jid] = n
        if client.name in self.restarted:
            self.probe("delivery_after_restart")
        first_group_media = rec["group"] and kind not in ("text", "ext")
        if got != rec["fields"]:
            bad = [k for k in rec["fields"] if got.get(k) != rec["fields"][k]]
            empty = all(got.get(k) in (None, "", b"", 0, 0.0, "<missing>") for k in bad)
            self.violate("delivery/%s/%s%s" % ("bogus-empty-entity" if empty else "content-differs", kind,
                                               "/group" if rec["group"] else ""),
                         desc + ": fields differ from what the sender composed: %s" % [(k, repr(got.get(k))[:40],
                                                                                        repr(rec["fields"][k])[:40]) for k in bad[:3]])
        elif n > 1:
            k3 = (client.jid, rec["id"], rec["sender"])
            nretry = self.retries_sent.get((client.jid, rec["id"], rec["sender"] if not rec["group"] else rec["to"]), 0)
            if self.server.duplicated.get(k3) and k3 in self.server.corrupted and nretry >= 2:
                # one specific history: the server damaged a message and delivered it twice, the recipient could decrypt
                # neither copy, asked twice for a retry and the sender served both requests
                self.violate("delivery/duplicate/retry-requested-for-both-copies-of-a-duplicated-message",
                             desc + ": shown %d times (the server delivered it twice, the recipient could decrypt neither copy "
                             "and sent %d retry receipts, the sender re-sent it for each)" % (n, nretry))
            elif self.server.duplicated.get(k3) and nretry >= 2 and rec["group"] and \
                    any(ck[0] == client.jid and ck[2] == rec["sender"] for ck in self.server.corrupted_counter):
                # the same history one step later: an earlier message of this sender to this recipient had its counter
                # damaged and was acknowledged as a "duplicate" (F26) — with it the sender key it carried was lost, so the
                # recipient can decrypt neither copy of this (undamaged, duplicated) group message and asks twice
                self.violate("delivery/duplicate/retry-requested-for-both-copies-of-a-duplicated-message/sender-key-lost-"
                             "with-a-counter-damaged-message",
                             desc + ": shown %d times (%d retry receipts; the sender key was in an earlier message whose "
                             "counter field was damaged)" % (n, nretry))
            else:
                self.violate("delivery/duplicate/%s%s" % (kind, "/group" if rec["group"] else ""),
                             desc + ": shown %d times to the application" % n)
        if is_group != rec["group"] or (is_group and frm != rec["to"]):
            self.violate("delivery/group-identity", desc + ": sent to %s" % rec["to"])
        if first_group_media:
            self.probe("group_media_first_message")

    def on_app_receipt(self, client, e):
        if e.getType() not in (None, "read"):
            return
        rec = self.sent.get((client.jid, e.getId()))
        if rec is None:
            return
        who = e.getParticipant() if rec["group"] else e.getFrom()
        rec["receipts"][who] = rec["receipts"].get(who, 0) + 1

    # ---------------------------------------------------------------- final oracle
    def judge(self, kstatus):
        if self.status != "done" or kstatus != "finished":
            self.violate("liveness/%s" % (self.status or kstatus), "the system did not reach quiescence with all scripted "
                         "operations issued within the time bound: ready=%s %s" % (self.ready, self.stuck_report()))
            return
        for key, rec in self.sent.items():
            dups = 0
            for rj in rec["rcpts"]:
                n = rec["delivered"].get(rj, 0)
                k3 = (rj, rec["id"], rec["sender"])
                corrupted = k3 in self.server.corrupted
                dup = self.server.duplicated.get(k3, 0)
                suffix = "%s%s%s%s" % (rec["kind"], "/group" if rec["group"] else "", ("/after-corruption-of-the-message-counter" if k3 in self.server.corrupted_counter else
                                                                                 "/after-corruption") if corrupted else "",
                                       "/with-duplicate" if dup else "")
                if n == 0:
                    self.violate("delivery/lost/%s" % suffix, "message tok %d (%s, id %s) from %s never reached the application "
                                 "of %s" % (rec["tok"], rec["kind"], rec["id"], rec["sender"], rj))
                want_r = 1 + dup
                got_r = rec["receipts"].get(rj, 0)
                if corrupted and dup and 1 <= got_r <= want_r + self.retries_sent.get(
                        (rj, rec["id"], rec["to"] if rec["group"] else rec["sender"]), 0):
                    # both copies were damaged: each is re-acknowledged by a retry request first; how many plain
                    # delivery receipts follow depends on how many re-sent copies arrive (see the duplicate clause)
                    pass
                elif n >= 1 and got_r != want_r:
                    self.violate("receipt/%s/%s" % ("missing" if got_r < want_r else "extra", suffix),
                                 "sender of message tok %d saw %d delivery receipts from %s, expected %d"
                                 % (rec["tok"], got_r, rj, want_r))
                if dup:
                    self.probe("duplicate_path")


def run(case):
    w = W(case)
    try:
        kstatus = w.run()
        w.judge(kstatus)
    finally:
        w.finish()
    nontrivial = any(sum(r["delivered"].values()) > 0 for r in w.sent.values())
    return w.result(nontrivial)
