"""Named PRNG substreams: one integer decides everything.

Every draw of a run comes from `stream(seed, name)`; adding a draw in one stream never shifts
another (this keeps minimisation stable)."""
import hashlib
import random


def stream(seed, name):
    h = hashlib.sha256(("%d/%s" % (seed, name)).encode()).digest()
    return random.Random(int.from_bytes(h[:16], "big"))


class IntRandom(object):
    """`random`-module look-alike for seams that do `import random`.
    Coerces float bounds (consonance 0.1.5 calls randint with floats, a TypeError on 3.12)."""

    def __init__(self, rng):
        self._r = rng

    def randint(self, a, b):
        return self._r.randint(int(a), int(b))

    def random(self):
        return self._r.random()

    def choice(self, seq):
        return self._r.choice(seq)

    def getrandbits(self, n):
        return self._r.getrandbits(n)

    def randrange(self, *a):
        return self._r.randrange(*a)

    def seed(self, *a):
        pass


def rbytes(rng, n):
    return bytes(rng.getrandbits(8) for _ in range(n))
