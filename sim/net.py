"""Simulated TCP: sockets, select and a listener, all driven by the kernel's virtual clock.

A connection is two unidirectional byte pipes.  Bytes written by one side are cut into pieces at
PRNG-chosen boundaries; each piece gets a latency; delivery is in order (TCP).  `recv(n)` returns
what has arrived (<= n, and <= the per-run recv cap).  Faults: refused connect, peer FIN, RST,
stall (no delivery for a while), short send.  The real asyncore / socket dispatchers of yowsup run
unchanged on top of `SockShim` / `SelectShim`."""
import errno

from . import kernel as _k


class NetConfig(object):
    def __init__(self, rng, lat=(0.0005, 0.02), piece=(1, 4096), recv_cap=1024, short_send_p=0.0,
                 connect_lat=(0.001, 0.05)):
        self.rng = rng
        self.lat = lat
        self.piece = piece
        self.recv_cap = recv_cap
        self.short_send_p = short_send_p
        self.connect_lat = connect_lat


class Pipe(object):
    """One direction of a connection."""

    def __init__(self, net, name):
        self.net = net
        self.name = name
        self.buf = bytearray()      # arrived, not yet read
        self.eof = False            # FIN arrived
        self.rst = False
        self.last_arrival = 0
        self.inflight = 0
        self.stall_until = 0
        self.on_arrival = None      # callback(pipe) in scheduler context
        self.total = 0

    def write(self, data, fin=False):
        net = self.net
        k = net.k
        cfg = net.cfg
        pos = 0
        n = len(data)
        while pos < n:
            lo, hi = cfg.piece
            size = max(cfg.rng.randint(lo, hi), n // 128)
            piece = bytes(data[pos:pos + size])
            pos += size
            if pos < n:
                net.faults["tcp_cut"] = net.faults.get("tcp_cut", 0) + 1
            self._schedule(piece, False)
        if fin:
            self._schedule(b"", True)

    def _schedule(self, piece, fin):
        net = self.net
        k = net.k
        lat = int(net.cfg.rng.uniform(*net.cfg.lat) * 1e6)
        at = max(k.now + lat, self.last_arrival, self.stall_until)
        self.last_arrival = at
        self.inflight += 1

        def arrive():
            self.inflight -= 1
            if self.rst:
                return
            if fin:
                self.eof = True
            else:
                if self.buf:
                    net.faults["tcp_coalesce"] = net.faults.get("tcp_coalesce", 0) + 1
                self.buf.extend(piece)
                self.total += len(piece)
            if self.on_arrival is not None:
                self.on_arrival(self)

        k.call_at(at, arrive)

    def readable(self):
        return bool(self.buf) or self.eof or self.rst


class Conn(object):
    _n = 0

    def __init__(self, net):
        Conn._n += 1
        self.id = Conn._n
        self.net = net
        self.state = "connecting"   # connecting -> up -> closed ; or refused
        self.c2s = Pipe(net, "c2s")
        self.s2c = Pipe(net, "s2c")
        self.client_sock = None
        self.client_closed = False
        self.client_closed_at = None
        self.server_closed = False
        self.so_error = 0
        self.sel_waiters = []
        self.user = None            # server-side per-connection state
        self.bytes_after_close = 0

    def wake_client(self):
        k = self.net.k
        for t in self.sel_waiters:
            k.wake(t)
        self.sel_waiters = []


class SimNet(object):
    """One per run.  `server_events` is polled by the server task via `next_event()`."""

    def __init__(self, k, cfg):
        self.k = k
        self.cfg = cfg
        self.socks = {}
        self.next_fd = 100
        self.conns = []
        self.events = []           # (kind, conn) for the server task
        self.server_waiters = []
        self.faults = {}
        self.connect_plan = []     # per connect attempt: "ok" | "refused" | "timeout"
        self.connect_count = 0
        self.log = []              # socket-level log for oracles: (kind, conn id, ...)
        self.bad_send_tag = lambda: ()   # extra tuple elements for rejected writes (set by a world)
        Conn._n = 0

    # ---------------------------------------------------------------- server side
    def _post(self, kind, conn):
        self.events.append((kind, conn))
        for t in self.server_waiters:
            self.k.wake(t)
        self.server_waiters = []

    def next_event(self, deadline=None):
        """Blocking (for the server task). Returns (kind, conn) or None on deadline."""
        k = self.k
        k.yield_()
        while not self.events:
            self.server_waiters.append(k.cur)
            ok = k.wait("server-events", deadline)
            if not ok and not self.events:
                return None
        return self.events.pop(0)

    def server_send(self, conn, data):
        if conn.server_closed or conn.state != "up":
            return
        conn.s2c.write(data)

    def server_close(self, conn, rst=False):
        if conn.server_closed:
            return
        conn.server_closed = True
        if rst:
            self.faults["rst"] = self.faults.get("rst", 0) + 1
            at = max(self.k.now + int(self.cfg.rng.uniform(*self.cfg.lat) * 1e6), 0)

            def do_rst():
                conn.s2c.rst = True
                conn.s2c.buf = bytearray()
                conn.wake_client()
            self.k.call_at(at, do_rst)
        else:
            self.faults["peer_fin"] = self.faults.get("peer_fin", 0) + 1
            conn.s2c.write(b"", fin=True)

    def stall(self, conn, seconds):
        until = self.k.now + int(seconds * 1e6)
        conn.s2c.stall_until = max(conn.s2c.stall_until, until)
        conn.c2s.stall_until = max(conn.c2s.stall_until, until)
        self.faults["stall"] = self.faults.get("stall", 0) + 1

    # ---------------------------------------------------------------- client side
    def _connect(self, sock):
        k = self.k
        conn = Conn(self)
        conn.client_sock = sock
        sock.conn = conn
        self.conns.append(conn)
        plan = self.connect_plan[self.connect_count] if self.connect_count < len(self.connect_plan) else "ok"
        self.connect_count += 1
        lat = int(self.cfg.rng.uniform(*self.cfg.connect_lat) * 1e6)
        self.log.append(("connect", conn.id, plan))

        def done():
            if conn.client_closed:
                return
            if plan == "ok":
                conn.state = "up"
                conn.c2s.on_arrival = lambda p: self._post("data", conn)
                conn.s2c.on_arrival = lambda p: conn.wake_client()
                self._post("accept", conn)
            elif plan == "refused":
                conn.state = "refused"
                conn.so_error = errno.ECONNREFUSED
                self.faults["connect_refused"] = self.faults.get("connect_refused", 0) + 1
            else:
                conn.state = "refused"
                conn.so_error = errno.ETIMEDOUT
                self.faults["connect_timeout"] = self.faults.get("connect_timeout", 0) + 1
            conn.wake_client()

        k.call_at(k.now + (lat if plan != "timeout" else lat + 5000000), done)
        return conn


class SimSocket(object):
    def __init__(self, net, family=None, typ=None):
        self.net = net
        self.fd = net.next_fd
        net.next_fd += 1
        net.socks[self.fd] = self
        self.conn = None
        self.closed = False
        self.blocking = True
        self.shut_wr = False

    # -- common
    def fileno(self):
        return self.fd

    def setblocking(self, b):
        self.blocking = bool(b)

    def settimeout(self, t):
        pass

    def setsockopt(self, *a):
        pass

    def getsockopt(self, level, opt, *a):
        if self.conn is not None and opt == SockShim.SO_ERROR:
            e = self.conn.so_error
            return e
        return 0

    def getpeername(self):
        if self.conn is None or self.conn.state != "up":
            raise OSError(errno.ENOTCONN, "not connected")
        return ("sim", 443)

    def connect_ex(self, addr):
        k = self.net.k
        k.yield_()
        if self.closed:
            return errno.EBADF
        self.net._connect(self)
        return errno.EINPROGRESS

    def connect(self, addr):
        """Blocking connect (socket dispatcher)."""
        k = self.net.k
        k.yield_()
        conn = self.net._connect(self)
        while conn.state == "connecting":
            conn.sel_waiters.append(k.cur)
            k.wait("connect")
        if conn.state != "up":
            raise OSError(conn.so_error, "connect failed")

    def send(self, data):
        net = self.net
        k = net.k
        k.yield_()
        conn = self.conn
        if self.closed:
            net.log.append(("send-after-close", conn.id if conn else None, len(data)) + net.bad_send_tag())
            raise OSError(errno.EBADF, "Bad file descriptor")
        if conn is None or conn.state != "up":
            net.log.append(("send-not-connected", conn.id if conn else None, len(data)) + net.bad_send_tag())
            raise OSError(errno.ENOTCONN, "not connected")
        if self.shut_wr:
            raise OSError(errno.EPIPE, "Broken pipe")
        if conn.s2c.rst:
            raise OSError(errno.ECONNRESET, "reset")
        data = bytes(data)
        n = len(data)
        if n > 1 and not self.blocking and net.cfg.short_send_p and net.cfg.rng.random() < net.cfg.short_send_p:
            n = net.cfg.rng.randint(1, n - 1)
            net.faults["short_send"] = net.faults.get("short_send", 0) + 1
        net.log.append(("send", conn.id, data[:n]))
        conn.c2s.write(data[:n])
        return n

    sendall = send

    def recv(self, n):
        net = self.net
        k = net.k
        k.yield_()
        conn = self.conn
        if self.closed:
            raise OSError(errno.EBADF, "Bad file descriptor")
        while True:
            if conn is None:
                raise OSError(errno.ENOTCONN, "not connected")
            p = conn.s2c
            if p.rst:
                raise OSError(errno.ECONNRESET, "Connection reset by peer")
            if p.buf:
                m = min(n, net.cfg.recv_cap)
                d = bytes(p.buf[:m])
                del p.buf[:m]
                # a second scheduling point: the bytes have left the socket but the caller has not seen them yet (another
                # thread may close the connection or announce it down in between)
                k.yield_()
                return d
            if p.eof:
                return b""
            if not self.blocking:
                raise BlockingIOError(errno.EWOULDBLOCK, "would block")
            conn.sel_waiters.append(k.cur)
            k.wait("recv")
            if self.closed:
                raise OSError(errno.EBADF, "Bad file descriptor")

    def shutdown(self, how):
        k = self.net.k
        k.yield_()
        if self.closed or self.conn is None or self.conn.state != "up":
            raise OSError(errno.ENOTCONN, "not connected")
        if not self.shut_wr:
            self.shut_wr = True
            self.conn.c2s.write(b"", fin=True)

    def close(self):
        if self.closed:
            return
        self.closed = True
        net = self.net
        net.socks.pop(self.fd, None)
        conn = self.conn
        if conn is not None and not conn.client_closed:
            conn.client_closed = True
            conn.client_closed_at = net.k.now
            net.log.append(("close", conn.id))
            if conn.state == "up":
                if not self.shut_wr:
                    conn.c2s.write(b"", fin=True)
                conn.state = "closed"
            elif conn.state == "connecting":
                conn.state = "closed"
            conn.wake_client()


class SockShim(object):
    """`socket` module look-alike bound to the SimNet of the current run."""
    AF_INET = 2
    SOCK_STREAM = 1
    SOL_SOCKET = 1
    SO_ERROR = 4
    SO_REUSEADDR = 2
    SHUT_WR = 1
    SHUT_RDWR = 2
    error = OSError
    timeout = TimeoutError
    net = None

    @staticmethod
    def socket(family=None, typ=None, *a):
        return SimSocket(SockShim.net, family, typ)


class SelectShim(object):
    error = OSError

    @staticmethod
    def select(r, w, e, timeout=None):
        net = SockShim.net
        k = net.k
        deadline = None if timeout is None else k.now + int(timeout * 1e6)
        while True:
            k.yield_()
            rr, ww = [], []
            bad = False
            for fd in r:
                s = net.socks.get(fd)
                if s is None:
                    bad = True
                    continue
                c = s.conn
                if c is not None and (c.s2c.readable() or c.state == "refused"):
                    rr.append(fd)
            for fd in w:
                s = net.socks.get(fd)
                if s is None:
                    bad = True
                    continue
                c = s.conn
                if c is not None and c.state in ("up", "refused"):
                    ww.append(fd)
            if bad and not rr and not ww:
                # an fd was closed by another thread while (or before) we selected: Linux keeps
                # select blocked until the timeout; we return empty at the deadline (below)
                pass
            if rr or ww:
                return rr, ww, []
            if deadline is not None and k.now >= deadline:
                return [], [], []
            me = k.cur
            for fd in set(r) | set(w):
                s = net.socks.get(fd)
                if s is not None and s.conn is not None:
                    s.conn.sel_waiters.append(me)
            k.wait("select", deadline)


def install_socket_seams():
    import asyncore
    import yowsup.layers.network.dispatcher.dispatcher_socket as DS
    import yowsup.layers.network.dispatcher.dispatcher_asyncore as DA
    from .sync import TimeShim
    asyncore.socket = SockShim
    asyncore.select = SelectShim
    asyncore.time = TimeShim
    DS.socket = SockShim
    DA.socket = SockShim
