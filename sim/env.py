"""Process bootstrap for every simulation worker.

Must run before anything from yowsup / consonance / axolotl is imported.

* puts a copy of six 1.17 (from the offline wheelhouse) first on sys.path: the
  six 1.10 pinned in /venv breaks `import google.protobuf` on CPython 3.12;
* redirects `import yowsup` to $VERIF_REPO (default /repo) so that checks always
  execute the current working tree (or a scratch copy for the mutant corpus);
* silences logging (logging must never perturb or leak into the result channel);
* gives the process a private scratch root for profile directories.
"""
import os
import sys
import shutil
import zipfile
import logging

VERIF = os.path.dirname(os.path.dirname(os.path.abspath(__file__)))
DEPS = os.path.join(VERIF, ".deps")
SIX_WHEEL = "/opt/veriftools/wheels/six-1.17.0-py2.py3-none-any.whl"
REPO = os.environ.get("VERIF_REPO", "/repo")

_scratch_root = None


def ensure_deps():
    """Idempotent; safe to call concurrently (atomic rename)."""
    target = os.path.join(DEPS, "six.py")
    if os.path.exists(target):
        return
    os.makedirs(DEPS, exist_ok=True)
    tmp = os.path.join(DEPS, ".six.%d.tmp" % os.getpid())
    with zipfile.ZipFile(SIX_WHEEL) as z:
        with z.open("six.py") as src, open(tmp, "wb") as dst:
            shutil.copyfileobj(src, dst)
    os.replace(tmp, target)


def bootstrap():
    ensure_deps()
    for p in (REPO, DEPS):
        if p in sys.path:
            sys.path.remove(p)
    sys.path.insert(0, REPO)
    sys.path.insert(0, DEPS)
    if VERIF not in sys.path:
        sys.path.insert(1, VERIF)
    logging.disable(logging.CRITICAL)
    logging.getLogger("yowsup.axolotl.manager").setLevel(50)
    sys.setswitchinterval(1.0)  # real threads never contend: one baton
    import yowsup
    here = os.path.realpath(os.path.dirname(os.path.dirname(yowsup.__file__)))
    if here != os.path.realpath(REPO):
        raise RuntimeError("yowsup imported from %s, expected %s" % (here, REPO))


def scratch_root():
    global _scratch_root
    if _scratch_root is None:
        base = "/dev/shm" if os.path.isdir("/dev/shm") and os.access("/dev/shm", os.W_OK) else None
        import tempfile
        _scratch_root = tempfile.mkdtemp(prefix="yowsup-verif-%d-" % os.getpid(), dir=base)
        import atexit
        atexit.register(lambda: shutil.rmtree(_scratch_root, ignore_errors=True))
    return _scratch_root


def fresh_config_home(tag="run"):
    """A new empty XDG_CONFIG_HOME for one simulated run; returns its path."""
    root = scratch_root()
    path = os.path.join(root, tag)
    shutil.rmtree(path, ignore_errors=True)
    os.makedirs(path)
    os.environ["XDG_CONFIG_HOME"] = path
    return path
