"""Simulated file layer: effects reach the real scratch file only at syscall boundaries, and a crash
plan can kill the "process" before any boundary.

Crash model = process death: everything already handed to the kernel (applied boundaries) survives,
the user-space buffer of an open file does not.  Boundaries: open(O_TRUNC/O_CREAT), each write chunk
(chunk size is a per-run knob), close, rename/replace, mkdir, fsync, unlink."""
import builtins
import os

from .kernel import SimCrash


class CrashPlan(object):
    def __init__(self, crash_at=None, chunk=8192):
        self.crash_at = crash_at
        self.chunk = max(1, int(chunk))
        self.count = 0
        self.log = []
        self.dead = False

    def hit(self, name):
        """Called *before* a boundary is applied."""
        if self.dead:
            raise SimCrash("dead")
        self.count += 1
        self.log.append(name)
        if self.crash_at is not None and self.count == self.crash_at:
            self.dead = True
            raise SimCrash("crash before boundary %d (%s)" % (self.count, name))


PLAN = None  # set per run by the world


class SimFile(object):
    def __init__(self, path, mode, encoding=None):
        self.path = path
        self.text = "b" not in mode
        self.encoding = encoding or "utf-8"
        self.buf = bytearray()
        self.closed = False
        plan = PLAN
        self.plan = plan
        if "a" in mode:
            plan.hit("open-append %s" % os.path.basename(path))
            builtins.open(path, "ab").close()
        elif "x" in mode:
            plan.hit("open-excl %s" % os.path.basename(path))
            builtins.open(path, "xb").close()
        else:
            plan.hit("open-trunc %s" % os.path.basename(path))
            builtins.open(path, "wb").close()

    def write(self, data):
        if self.closed:
            raise ValueError("I/O operation on closed file")
        if self.text:
            if not isinstance(data, str):
                raise TypeError("write() argument must be str, not %s" % type(data).__name__)
            data = data.encode(self.encoding)
        else:
            if isinstance(data, str):
                raise TypeError("a bytes-like object is required, not 'str'")
            data = bytes(data)
        self.buf.extend(data)
        if len(self.buf) >= 8192:
            self._drain()
        return len(data)

    def _drain(self):
        plan = self.plan
        while self.buf:
            piece = bytes(self.buf[:plan.chunk])
            plan.hit("write %d bytes" % len(piece))
            with builtins.open(self.path, "ab") as f:
                f.write(piece)
            del self.buf[:len(piece)]

    def flush(self):
        self._drain()

    def fileno(self):
        return -1

    def close(self):
        if self.closed:
            return
        if self.plan.dead:
            self.closed = True
            return
        self._drain()
        self.plan.hit("close %s" % os.path.basename(self.path))
        self.closed = True

    def __enter__(self):
        return self

    def __exit__(self, et, ev, tb):
        if et is not None and issubclass(et, SimCrash):
            self.closed = True
            return False
        self.close()
        return False


def sim_open(path, mode="r", *a, **kw):
    if PLAN is not None and any(c in mode for c in "wax+"):
        return SimFile(path, mode, kw.get("encoding"))
    return builtins.open(path, mode, *a, **kw)


class SimOs(object):
    """`os` look-alike: mutating calls are crash boundaries."""

    def __init__(self, urandom=None):
        self._urandom = urandom

    def __getattr__(self, name):
        return getattr(os, name)

    def urandom(self, n):
        if self._urandom is not None:
            return self._urandom(n)
        return os.urandom(n)

    def _b(self, name):
        if PLAN is not None:
            PLAN.hit(name)

    def makedirs(self, path, *a, **kw):
        self._b("mkdir %s" % os.path.basename(path))
        return os.makedirs(path, *a, **kw)

    def mkdir(self, path, *a, **kw):
        self._b("mkdir %s" % os.path.basename(path))
        return os.mkdir(path, *a, **kw)

    def rename(self, a, b):
        self._b("rename %s -> %s" % (os.path.basename(a), os.path.basename(b)))
        return os.rename(a, b)

    def replace(self, a, b):
        self._b("replace %s -> %s" % (os.path.basename(a), os.path.basename(b)))
        return os.replace(a, b)

    def remove(self, p):
        self._b("unlink %s" % os.path.basename(p))
        return os.remove(p)

    unlink = remove

    def fsync(self, fd):
        self._b("fsync")
        return None
