"""Batch driver: seeds -> cases -> runs (in worker subprocesses) -> verdict, replays, evidence.

A *check module* (checks/cXX.py) provides

    PROP, LEVEL, RULE, COMPONENTS, ASSUMPTIONS, BUDGET = {"quick": (runs, wall_s), "thorough": (...)}
    setup()                          once per process (imports, seams)
    total(tier)            -> int    number of cases of this tier (enumerated first, then seeded)
    case(idx, tier, base)  -> dict   JSON-serialisable, self-contained description of one run
    run(case)              -> dict   {"violations": [{"sig":..., "detail":...}], "nontrivial": bool,
                                       "digest": str, "faults": {...}, "probes": {...},
                                       "steps": int, "vtime": float, "states": [..]}
    SHRINK = ["ops", ...]            list-valued keys of a case that ddmin may shorten
    simplify(case)         -> iter   optional: simpler variants to try after ddmin

Exit codes: 0 = held (known findings are printed, not alarms), 1 = violation, 2 = harness error.
"""
import faulthandler
import hashlib
import importlib
import json
import os
import re
import subprocess
import tempfile
import sys
import time

from . import env

VERIF = env.VERIF
PY = sys.executable
RUN_WALL_LIMIT = 240  # seconds of real time one simulated run may take before the worker is killed


def load_check(prop):
    return importlib.import_module("checks." + prop.lower())


def seed_for(base, idx):
    return base * (1 << 20) + idx


# --------------------------------------------------------------------------------------- worker
def worker_main(args):
    env.bootstrap()
    chk = load_check(args.prop)
    chk.setup()
    deadline = time.time() + args.wall
    agg = {"runs": 0, "nontrivial": 0, "digests": [], "faults": {}, "probes": {}, "steps": 0,
           "vtime": 0.0, "states": [], "samples": [], "all_digests": [], "sim_wall": 0.0}
    states = set()
    dig = set()
    sig_seen = {}
    out = sys.stdout
    idx = args.offset
    while idx < args.count:
        if time.time() > deadline:
            break
        case = chk.case(idx, args.tier, args.base)
        faulthandler.dump_traceback_later(RUN_WALL_LIMIT, exit=True)
        t0 = time.time()
        res = chk.run(case)
        agg["sim_wall"] += time.time() - t0
        faulthandler.cancel_dump_traceback_later()
        agg["runs"] += 1
        if res.get("nontrivial"):
            agg["nontrivial"] += 1
            dig.add(res.get("key") or res["digest"])
        for k, v in res.get("faults", {}).items():
            agg["faults"][k] = agg["faults"].get(k, 0) + v
        for k, v in res.get("probes", {}).items():
            agg["probes"][k] = agg["probes"].get(k, 0) + v
        agg["steps"] += res.get("steps", 0)
        agg["vtime"] += res.get("vtime", 0.0)
        for s in res.get("states", ()):
            states.add(s)
        if args.digests:
            agg["all_digests"].append([idx, res["digest"]])
        if len(agg["samples"]) < 2 and res.get("nontrivial"):
            agg["samples"].append({"case": _trim(case), "digest": res["digest"],
                                   "trace": res.get("trace", [])[:40]})
        if res.get("violations"):
            # full case only for the first reports of a signature; later ones are counted
            fresh = [v for v in res["violations"] if sig_seen.get(v["sig"], 0) < 25]
            for v in res["violations"]:
                sig_seen[v["sig"]] = sig_seen.get(v["sig"], 0) + 1
            if fresh:
                out.write("V " + json.dumps({"idx": idx, "case": case, "violations": res["violations"],
                                             "digest": res["digest"]}) + "\n")
            else:
                out.write("V " + json.dumps({"idx": idx, "case": None, "digest": res["digest"],
                                             "violations": [{"sig": v["sig"], "detail": ""} for v in res["violations"]]}) + "\n")
            out.flush()
        idx += args.stride
    agg["digests"] = sorted(dig)
    agg["states"] = sorted(states)
    agg["next_idx"] = idx
    out.write("A " + json.dumps(agg) + "\n")
    out.flush()
    return 0


def _trim(obj, limit=1500):
    s = json.dumps(obj)
    if len(s) <= limit:
        return obj
    if isinstance(obj, dict):
        out = {}
        for k, v in obj.items():
            sv = json.dumps(v)
            out[k] = v if len(sv) < 300 else (sv[:280] + "...")
        return out
    return s[:limit] + "..."


# --------------------------------------------------------------------------------------- parent
def known_findings():
    p = os.path.join(VERIF, "known_findings.json")
    if not os.path.exists(p):
        return []
    return json.load(open(p)).get("findings", [])


def match_known(prop, sig, findings):
    for f in findings:
        if f.get("property") != prop or f.get("status") != "known":
            continue
        if re.fullmatch(f["sig"], sig):
            return f
    return None


def _spawn_workers(prop, tier, base, count, workers, wall, digests=False, hashseed="0", extra_env=None):
    procs = []
    e = dict(os.environ)
    e["PYTHONHASHSEED"] = hashseed
    e["PYTHONPATH"] = VERIF
    if extra_env:
        e.update(extra_env)
    for w in range(workers):
        cmd = [PY, os.path.join(VERIF, "simcheck.py"), "--worker", prop, "--tier", tier, "--base", str(base),
               "--offset", str(w), "--stride", str(workers), "--count", str(count), "--wall", str(wall)]
        if digests:
            cmd.append("--digests")
        # output goes to anonymous temporary files, not pipes: a worker with many reports must never block on a
        # full pipe while the parent is still reading another worker
        so, se = tempfile.TemporaryFile(), tempfile.TemporaryFile()
        p = subprocess.Popen(cmd, stdout=so, stderr=se, env=e, cwd=VERIF)
        p._out, p._err = so, se
        procs.append(p)
    return procs


def _collect(procs, hard_timeout):
    aggs, viols, errors = [], [], []
    t_end = time.time() + hard_timeout
    for p in procs:
        timed_out = False
        try:
            p.wait(timeout=max(1, t_end - time.time()))
        except subprocess.TimeoutExpired:
            p.kill()
            p.wait()
            timed_out = True
        p._out.seek(0)
        p._err.seek(0)
        so, se = p._out.read(), p._err.read()
        p._out.close()
        p._err.close()
        if timed_out:
            errors.append("worker timed out\n" + se.decode("utf-8", "replace")[-3000:])
        for line in so.decode("utf-8", "replace").splitlines():
            if line.startswith("A "):
                aggs.append(json.loads(line[2:]))
            elif line.startswith("V "):
                viols.append(json.loads(line[2:]))
        if p.returncode != 0:
            errors.append("worker exit %s\n%s" % (p.returncode, se.decode("utf-8", "replace")[-3000:]))
    return aggs, viols, errors


def run_in_subprocess(mode, path, timeout=600):
    e = dict(os.environ)
    e["PYTHONHASHSEED"] = "0"
    e["PYTHONPATH"] = VERIF
    cmd = [PY, os.path.join(VERIF, "simcheck.py"), mode, path]
    return subprocess.run(cmd, stdout=subprocess.PIPE, stderr=subprocess.PIPE, env=e, cwd=VERIF, timeout=timeout)


def check_main(prop, tier, base, runs=None, workers=None, wall=None):
    t0 = time.time()
    env.ensure_deps()
    env.bootstrap()
    chk = load_check(prop)
    n_runs, wall_s = chk.BUDGET[tier]
    if runs is not None:
        n_runs = runs
    if wall is not None:
        wall_s = wall
    if os.environ.get("VERIF_BUDGET_S"):
        wall_s = float(os.environ["VERIF_BUDGET_S"])
    total = min(chk.total(tier), n_runs) if hasattr(chk, "total") else n_runs
    workers = workers or min(16, os.cpu_count() or 4, max(1, total))
    procs = _spawn_workers(prop, tier, base, total, workers, wall_s)
    aggs, viols, errors = _collect(procs, wall_s + RUN_WALL_LIMIT + 60)
    findings = known_findings()
    ev = _aggregate(chk, prop, tier, base, aggs, total)
    status = 0
    if errors:
        sys.stderr.write("HARNESS ERROR in %s:\n%s\n" % (prop, "\n".join(errors)))
        status = 2
    # ---- violations
    viols.sort(key=lambda v: v["idx"])
    by_sig = {}
    for v in viols:
        for one in v["violations"]:
            by_sig.setdefault(one["sig"], []).append((v, one))
    known_hit = {}
    new_sigs = []
    for sig, lst in by_sig.items():
        f = match_known(prop, sig, findings)
        if f is not None:
            known_hit.setdefault(f["id"], [f, 0, lst[0]])
            known_hit[f["id"]][1] += len(lst)
        else:
            new_sigs.append(sig)
    for fid, (f, n, first) in sorted(known_hit.items()):
        print("KNOWN-FINDING: property=%s %s — %s [%d runs, e.g. case idx %d]"
              % (prop, fid, f["what"], n, first[0]["idx"]))
    reported = 0
    for sig in new_sigs[:4]:
        v, one = next((x for x in by_sig[sig] if x[0].get("case") is not None), by_sig[sig][0])
        path = write_replay(prop, v["case"], one, minimise=not os.environ.get("VERIF_NO_MINIMISE"))
        print("VIOLATION property=%s replay=%s" % (prop, path))
        print("  signature: %s" % sig)
        print("  detail: %s" % str(one.get("detail"))[:600])
        reported += 1
    for sig in new_sigs[4:]:
        print("  (further violation signature not minimised: %s, %d runs)" % (sig, len(by_sig[sig])))
    if new_sigs and status == 0:
        status = 1
    ev["violations"] = sum(len(by_sig[s]) for s in new_sigs)
    ev["coverage"]["known_findings_hit"] = {k: v[1] for k, v in known_hit.items()}
    ev["coverage"]["violation_signatures"] = new_sigs
    ev["wall_s"] = round(time.time() - t0, 2)
    if ev["wall_s"] > 0:
        ev["coverage"]["runs_per_hour"] = int(ev["coverage"]["evaluations"] * 3600 / ev["wall_s"])
    if status != 2 and not os.environ.get("VERIF_NO_EVIDENCE"):
        os.makedirs(os.path.join(VERIF, "evidence"), exist_ok=True)
        with open(os.path.join(VERIF, "evidence", "%s.json" % prop), "w") as f:
            json.dump(ev, f, indent=1, sort_keys=True)
    zero = [k for k, v in ev["coverage"].get("probes", {}).items() if v == 0]
    print("%s %s: runs=%d nontrivial_distinct=%d wall=%.1fs status=%d%s"
          % (prop, tier, ev["coverage"]["evaluations"], ev["coverage"]["distinct_nontrivial"], ev["wall_s"],
             status, (" probes-at-zero=%s" % zero) if zero else ""))
    return status


def _aggregate(chk, prop, tier, base, aggs, total):
    runs = sum(a["runs"] for a in aggs)
    dig = set()
    states = set()
    faults, probes = {}, {}
    for name in getattr(chk, "PROBES", ()):
        probes[name] = 0
    for name in getattr(chk, "FAULTS", ()):
        faults[name] = 0
    steps = 0
    vtime = 0.0
    samples = []
    for a in aggs:
        dig.update(a["digests"])
        states.update(a["states"])
        for k, v in a["faults"].items():
            faults[k] = faults.get(k, 0) + v
        for k, v in a["probes"].items():
            probes[k] = probes.get(k, 0) + v
        steps += a["steps"]
        vtime += a["vtime"]
        samples.extend(a["samples"])
    cov = {
        "evaluations": runs,
        "planned": total,
        "distinct_nontrivial": len(dig),
        "rule": chk.RULE,
        "samples": samples[:3],
        "seed_range": [seed_for(base, 0), seed_for(base, max(0, total - 1))],
        "faults_fired": faults,
        "probes": probes,
        "kernel_steps": steps,
        "simulated_seconds": round(vtime, 3),
        "distinct_states": len(states),
        "components": chk.COMPONENTS,
        "exhaustive": bool(getattr(chk, "EXHAUSTIVE", {}).get(tier, False)) and runs >= total,
    }
    if hasattr(chk, "STATE_MEASURE"):
        cov["state_measure"] = chk.STATE_MEASURE
    return {"property_id": prop, "tier": tier, "seed": base, "level": chk.LEVEL, "coverage": cov,
            "assumptions": list(chk.ASSUMPTIONS), "wall_s": 0.0, "violations": 0}


# --------------------------------------------------------------------------------------- replay
def sig_of(res):
    return [v["sig"] for v in res.get("violations", [])]


def write_replay(prop, case, violation, minimise=True):
    rdir = os.environ.get("VERIF_REPLAY_DIR") or os.path.join(VERIF, "replays")
    os.makedirs(rdir, exist_ok=True)
    sig = violation["sig"]
    h = hashlib.sha256(sig.encode()).hexdigest()[:8]
    path = os.path.join(rdir, "%s-%s-%s.json" % (prop, case.get("seed", 0), h))
    doc = {"property": prop, "expected_signature": sig, "detail": violation.get("detail"), "case": case,
           "minimised": False}
    with open(path, "w") as f:
        json.dump(doc, f, indent=1)
    if minimise:
        try:
            r = run_in_subprocess("--minimise", path, timeout=400)
            if r.returncode not in (0,):
                sys.stderr.write("minimiser exit %s: %s\n" % (r.returncode, r.stderr.decode()[-500:]))
        except subprocess.TimeoutExpired:
            sys.stderr.write("minimiser timed out; unminimised replay kept\n")
    return path


def minimise_main(path, budget=150):
    env.bootstrap()
    doc = json.load(open(path))
    chk = load_check(doc["property"])
    chk.setup()
    sig = doc["expected_signature"]
    t_end = time.time() + budget
    tries = [0]

    def fails(case):
        tries[0] += 1
        faulthandler.dump_traceback_later(RUN_WALL_LIMIT, exit=True)
        try:
            res = chk.run(case)
        finally:
            faulthandler.cancel_dump_traceback_later()
        for v in res.get("violations", []):
            if v["sig"] == sig:
                return res, v
        return None

    case = doc["case"]
    first = fails(case)
    if first is None:
        doc["note"] = "violation did not reproduce inside the minimiser; unminimised case kept"
        json.dump(doc, open(path, "w"), indent=1)
        return 0
    best, bestv = case, first[1]
    bestres = first[0]
    # 1. simpler variants (scheduling policy, pre-emption off, ...)
    if hasattr(chk, "simplify"):
        progress = True
        while progress and time.time() < t_end:
            progress = False
            for cand in chk.simplify(best):
                if time.time() > t_end:
                    break
                r = fails(cand)
                if r is not None:
                    best, bestres, bestv = cand, r[0], r[1]
                    progress = True
                    break
    # 2. ddmin over list-valued keys
    for key in getattr(chk, "SHRINK", ()):
        lst = list(best.get(key) or [])
        n = 2
        while len(lst) >= 1 and time.time() < t_end:
            chunk = max(1, len(lst) // n)
            reduced = False
            for i in range(0, len(lst), chunk):
                cand_list = lst[:i] + lst[i + chunk:]
                cand = dict(best)
                cand[key] = cand_list
                if hasattr(chk, "repair"):
                    cand = chk.repair(cand)
                    if cand is None:
                        continue
                r = fails(cand)
                if r is not None:
                    best, bestres, bestv = cand, r[0], r[1]
                    lst = list(best.get(key) or [])
                    n = max(n - 1, 2)
                    reduced = True
                    break
                if time.time() > t_end:
                    break
            if not reduced:
                if chunk == 1:
                    break
                n = min(len(lst), n * 2)
    # 3. simplify again on the reduced case
    if hasattr(chk, "simplify"):
        for cand in chk.simplify(best):
            if time.time() > t_end:
                break
            r = fails(cand)
            if r is not None:
                best, bestres, bestv = cand, r[0], r[1]
    doc["case"] = best
    doc["detail"] = bestv.get("detail")
    doc["minimised"] = True
    doc["minimiser_runs"] = tries[0]
    doc["digest"] = bestres.get("digest")
    doc["schedule"] = bestres.get("schedule", [])[:2000]
    doc["trace"] = bestres.get("trace", [])[:200]
    json.dump(doc, open(path, "w"), indent=1)
    return 0


def replay_main(path):
    env.bootstrap()
    doc = json.load(open(path))
    chk = load_check(doc["property"])
    chk.setup()
    faulthandler.dump_traceback_later(RUN_WALL_LIMIT, exit=True)
    res = chk.run(doc["case"])
    faulthandler.cancel_dump_traceback_later()
    sigs = sig_of(res)
    want = doc["expected_signature"]
    if want in sigs:
        v = [x for x in res["violations"] if x["sig"] == want][0]
        f = match_known(doc["property"], want, known_findings())
        if f is not None:
            print("KNOWN-FINDING: property=%s %s — %s" % (doc["property"], f["id"], f["what"]))
        print("VIOLATION property=%s replay=%s" % (doc["property"], path))
        print("  signature: %s" % want)
        print("  detail: %s" % str(v.get("detail"))[:1500])
        if doc.get("digest") and doc["digest"] != res.get("digest"):
            print("  note: trace digest differs from the recorded one (%s vs %s)" % (res.get("digest"), doc["digest"]))
        for line in res.get("trace", [])[-30:]:
            print("   | %s" % line)
        return 1
    print("replay of %s: expected signature %r not reproduced (got %r)" % (path, want, sigs))
    return 0


# --------------------------------------------------------------------------------------- self-test
def determinism_main(props, n=200):
    """Every case run in fresh interpreters under different worker counts / hash seeds: digests equal."""
    env.ensure_deps()
    bad = 0
    for prop in props:
        ref = None
        for workers, hs in ((1, "0"), (4, "1"), (16, "0"), (16, "12345")):
            procs = _spawn_workers(prop, "quick", 7, n, workers, 600, digests=True, hashseed=hs)
            aggs, viols, errors = _collect(procs, 900)
            if errors:
                print("determinism %s: harness error %s" % (prop, errors[0][-800:]))
                bad += 1
                break
            d = {}
            for a in aggs:
                for i, g in a["all_digests"]:
                    d[i] = g
            if ref is None:
                ref = d
                continue
            diff = [i for i in ref if d.get(i) != ref[i]]
            if diff:
                print("determinism %s: %d of %d runs diverge (workers=%d hashseed=%s), e.g. idx %s"
                      % (prop, len(diff), len(ref), workers, hs, diff[:5]))
                bad += 1
        print("determinism %s: %d runs x 4 configurations %s" % (prop, len(ref or {}), "OK" if not bad else "FAILED"))
    return 2 if bad else 0
