"""Rebinding of module globals: every source of nondeterminism goes behind a simulator-owned seam.

Nothing in /repo is edited; the seams are the module-level names yowsup/consonance/axolotl import
(`threading`, `Queue`, `time`, `random`, `socket`, `select`, `os.urandom`, ...)."""
import os
import sys
import random as _random

from . import kernel as _k
from .rng import IntRandom, stream, rbytes
from .sync import ThreadingShim, QueueShim, TimeShim, SimLock, SimRLock, SimEvent, SimQueue, patch_threads

_installed = set()


class _Holder(object):
    """Per-run RNG streams, swapped at the start of each run."""
    keys = None       # key material (identity keys, prekeys, ephemerals)
    misc = None       # padding, endpoint choice, session id, uuid


H = _Holder()


def reset_streams(seed):
    H.keys = stream(seed, "keys")
    H.misc = stream(seed, "misc")
    _random.seed(seed)  # the global `random` (YowStack endpoint choice, message padding)


class _MiscRandom(object):
    def randint(self, a, b):
        return H.misc.randint(int(a), int(b))

    def random(self):
        return H.misc.random()

    def choice(self, s):
        return H.misc.choice(s)


class _OsShim(object):
    """`os` look-alike whose urandom is simulator-owned."""

    def __getattr__(self, name):
        return getattr(os, name)

    @staticmethod
    def urandom(n):
        return rbytes(H.keys, n)


class _SystemRandomShim(object):
    def __init__(self, *a):
        pass

    def getrandbits(self, n):
        return H.keys.getrandbits(n)

    def randrange(self, *a):
        return H.keys.randrange(*a)

    def randint(self, a, b):
        return H.keys.randint(a, b)

    def random(self):
        return H.keys.random()


def install_random_seams():
    if "random" in _installed:
        return
    _installed.add("random")
    import consonance.handshake as CH
    CH.random = _MiscRandom()
    import yowsup.axolotl.manager as M
    M.random = PadRandom()
    import yowsup.stacks.yowstack as YS
    YS.random = _MiscRandom()
    # Signal key material
    import axolotl.ecc.curve as AC
    AC.os = _OsShim()
    import axolotl.util.keyhelper as KH
    KH.os = _OsShim()
    if hasattr(KH, "SystemRandom"):
        KH.SystemRandom = _SystemRandomShim
    if hasattr(KH, "random"):
        pass
    try:
        import yowsup.layers.axolotl.protocolentities.iq_keys_set as IKS
        if hasattr(IKS, "os"):
            IKS.os = _OsShim()
    except Exception:
        pass
    # Noise ephemerals: derive from the key stream through from_private_bytes
    from dissononce.dh.x25519 import x25519 as DX
    from dissononce.dh.private import PrivateKey as DPr
    orig = DX.X25519DH.generate_keypair

    def gen(self, privatekey=None):
        if privatekey is None:
            privatekey = DPr(rbytes(H.keys, 32))
        return orig(self, privatekey)

    DX.X25519DH.generate_keypair = gen
    import yowsup.common.tools as T
    import uuid as _uuid

    class _Uuid(object):
        UUID = _uuid.UUID

        @staticmethod
        def uuid4():
            return _uuid.UUID(bytes=rbytes(H.misc, 16), version=4)

    T.uuid = _Uuid
    T.os = _ToolsOs()


class _ToolsOs(object):
    def __getattr__(self, name):
        return getattr(os, name)

    @staticmethod
    def urandom(n):
        return rbytes(H.keys, n)


class PadRandom(object):
    """`random` seam of yowsup.axolotl.manager: the pad length of the next Signal message is
    simulator-owned (see sim/pad.py for the wrapper that pre-loads it)."""
    nxt = None

    def randint(self, a, b):
        v = PadRandom.nxt
        PadRandom.nxt = None
        if v is not None:
            return v
        return H.misc.randint(int(a), int(b))


def install_thread_seams():
    """Locks, queues, thread start, time for the layers that own threads."""
    if "thread" in _installed:
        return
    _installed.add("thread")
    patch_threads()
    import yowsup.layers as L
    import yowsup.layers.noise.layer as NL
    import yowsup.layers.protocol_iq.layer as IQL
    import yowsup.stacks.yowstack as YS
    import yowsup.structs.protocolentity as PE
    import consonance.streams.segmented.blockingqueue as BQ
    L.threading = ThreadingShim
    NL.threading = ThreadingShim
    NL.Queue = QueueShim
    BQ.Queue = QueueShim
    IQL.Lock = SimLock
    IQL.time = TimeShim
    YS.time = TimeShim
    PE.time = TimeShim
    try:
        import axolotl.util.keyhelper as KH
        if hasattr(KH, "time"):
            KH.time = TimeShim
    except Exception:
        pass
    try:
        import consonance.certman.certman as CM
        if hasattr(CM, "time"):
            CM.time = TimeShim
    except Exception:
        pass


def install_time_seams_only():
    """For single-threaded event worlds: virtual time for ids/timestamps, real locks stay."""
    if "time" in _installed or "thread" in _installed:
        return
    _installed.add("time")
    import yowsup.structs.protocolentity as PE
    import yowsup.layers.protocol_iq.layer as IQL
    import yowsup.stacks.yowstack as YS
    PE.time = TimeShim
    IQL.time = TimeShim
    YS.time = TimeShim
    try:
        import axolotl.util.keyhelper as KH
        if hasattr(KH, "time"):
            KH.time = TimeShim
    except Exception:
        pass


def reset_process_globals():
    """Process-wide mutable state of yowsup that must not leak from one run into the next."""
    from yowsup.structs.protocolentity import ProtocolEntity
    ProtocolEntity._ProtocolEntity__ID_GEN = 0
    import yowsup.stacks.yowstack as YS
    if "thread" in _installed:
        YS.YowStack._YowStack__detachedQueue = SimQueue()
    else:
        import queue
        YS.YowStack._YowStack__detachedQueue = queue.Queue()
    try:
        import asyncore
        asyncore.socket_map.clear()
    except Exception:
        pass
    SimLock._n = 0
    SimQueue._n = 0


def auto_rebind(prefixes=("yowsup", "consonance")):
    """Rebind every module-level reference to threading / queue / time primitives in the loaded
    modules of the given packages (robust against code that adds a lock or a sleep somewhere new).
    Call after everything has been imported."""
    import threading as _th
    import queue as _q
    import time as _t
    real_lock = _th.Lock
    real_rlock = _th.RLock
    n = 0
    for name, mod in list(sys.modules.items()):
        if mod is None or not any(name == p or name.startswith(p + ".") for p in prefixes):
            continue
        d = getattr(mod, "__dict__", None)
        if d is None:
            continue
        for attr, val in list(d.items()):
            new = None
            if val is _th:
                new = ThreadingShim
            elif val is _q:
                new = QueueShim
            elif val is _t:
                new = TimeShim
            elif val is real_lock:
                new = SimLock
            elif val is real_rlock:
                new = SimRLock
            elif val is _th.Event:
                new = SimEvent
            elif val is _q.Queue:
                new = SimQueue
            elif val is _t.sleep:
                new = TimeShim.sleep
            elif val is _t.time:
                new = TimeShim.time
            if new is not None:
                d[attr] = new
                n += 1
    return n
