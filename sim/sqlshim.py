"""SQLite seam: a statement-level proxy around sqlite3 connections.

Every `execute` and `commit` is a boundary of the crash plan (sim/storage.CrashPlan); a crash raises
SimCrash *before* the boundary is applied.  `crash_all()` then models process death for the open
connections: the uncommitted transaction is rolled back and the connection closed — equivalent to
what SQLite's atomic commit guarantees for a killed process (trusted)."""
import sqlite3 as _sqlite3

from . import storage
from . import kernel as _kernel

OPEN = []          # live proxies of the current simulated process
COUNTS = {"execute": 0, "commit": 0}


class CursorProxy(object):
    def __init__(self, conn, real):
        self._conn = conn
        self._real = real

    def execute(self, sql, *args):
        self._conn._boundary("execute", sql)
        self._real.execute(sql, *args)
        return self

    def executemany(self, sql, *args):
        self._conn._boundary("execute", sql)
        self._real.executemany(sql, *args)
        return self

    def fetchone(self):
        return self._real.fetchone()

    def fetchall(self):
        return self._real.fetchall()

    def __iter__(self):
        return iter(self._real)

    @property
    def rowcount(self):
        return self._real.rowcount

    @property
    def lastrowid(self):
        return self._real.lastrowid

    def close(self):
        self._real.close()


class ConnProxy(object):
    def __init__(self, real, path):
        object.__setattr__(self, "_real", real)
        object.__setattr__(self, "_path", path)
        object.__setattr__(self, "_dead", False)
        OPEN.append(self)

    def _boundary(self, kind, sql=""):
        if self._dead:
            raise storage.SimCrash("connection of a dead process")
        COUNTS[kind] = COUNTS.get(kind, 0) + 1
        plan = storage.PLAN
        k = _kernel.K
        cur = getattr(k, "cur", None)
        proc = getattr(cur, "proc", None)
        pplan = getattr(proc, "crash_plan", None)
        if pplan is not None:
            plan = pplan
        if plan is not None:
            word = sql.strip().split(" ", 1)[0].upper() if sql else ""
            plan.hit("sql-%s %s" % (kind, word))

    def cursor(self):
        return CursorProxy(self, self._real.cursor())

    def execute(self, sql, *args):
        self._boundary("execute", sql)
        return CursorProxy(self, self._real.execute(sql, *args))

    def commit(self):
        self._boundary("commit")
        self._real.commit()

    def rollback(self):
        self._real.rollback()

    def close(self):
        if self in OPEN:
            OPEN.remove(self)
        self._real.close()

    def __enter__(self):
        return self

    def __exit__(self, et, ev, tb):
        if et is None:
            self.commit()
        else:
            self._real.rollback()
        return False

    def __getattr__(self, name):
        return getattr(self._real, name)

    def __setattr__(self, name, value):
        setattr(self._real, name, value)


class SqliteShim(object):
    """`sqlite3` module look-alike."""

    def __getattr__(self, name):
        return getattr(_sqlite3, name)

    @staticmethod
    def connect(path, *a, **kw):
        real = _sqlite3.connect(path, *a, **kw)
        return ConnProxy(real, path)


def crash_all():
    """Process death: roll back and close every open connection."""
    for c in list(OPEN):
        object.__setattr__(c, "_dead", True)
        try:
            c._real.rollback()
        except Exception:
            pass
        try:
            c._real.close()
        except Exception:
            pass
    del OPEN[:]


def close_all():
    """Clean shutdown of the simulated process (no pending transaction is committed for it)."""
    crash_all()


def install():
    import yowsup.axolotl.store.sqlite.liteaxolotlstore as LS
    LS.sqlite3 = SqliteShim()


def close_prefix(prefix):
    """Close (as process death) the connections whose database lives under `prefix`."""
    for c in list(OPEN):
        if str(c._path).startswith(prefix):
            object.__setattr__(c, "_dead", True)
            try:
                c._real.rollback()
            except Exception:
                pass
            try:
                c._real.close()
            except Exception:
                pass
            OPEN.remove(c)
