"""Simulated synchronisation primitives, clock and thread start — all yield points of the kernel."""
import queue as _realqueue
import sys as _sys
import threading as _realthreading

from . import kernel as _k

EPOCH0 = 1700000000  # virtual wall clock origin (seconds)


def _K():
    k = _k.K
    if k is None:
        raise RuntimeError("no simulation kernel installed")
    return k


def _soft_yield(k):
    me = k.cur
    if me is None or me.kill is not None or k.stopping:
        return
    k.yield_()


class SimLock(object):
    """threading.Lock look-alike.  Records the acquirer for wedge reports."""
    _n = 0

    def __init__(self, name=None):
        SimLock._n += 1
        if name is None:
            try:
                f = _sys._getframe(1)
                name = "lock%d@%s:%d" % (SimLock._n, f.f_code.co_filename.rsplit("/", 2)[-1], f.f_lineno)
            except Exception:
                name = "lock%d" % SimLock._n
        self.name = name
        self.held = False
        self.owner = None
        self.waiters = []
        self.contended = 0

    def describe(self):
        return "%s held_by=%s" % (self.name, self.owner.name if self.owner is not None else None)

    def acquire(self, blocking=True, timeout=-1):
        k = _K()
        k.yield_()
        if self.held and not blocking:
            return False
        deadline = None
        if timeout is not None and timeout >= 0:
            deadline = k.now + int(timeout * 1e6)
        while self.held:
            self.contended += 1
            me = k.cur
            self.waiters.append(me)
            ok = k.wait(self, deadline)
            if me in self.waiters:
                self.waiters.remove(me)
            if not ok and self.held:
                return False
        self.held = True
        self.owner = k.cur
        k.cur.holds += 1
        return True

    def release(self):
        k = _K()
        if not self.held:
            raise RuntimeError("release unlocked lock")
        self.held = False
        if self.owner is not None:
            self.owner.holds -= 1
        self.owner = None
        for w in self.waiters:
            k.wake(w)
        self.waiters = []
        _soft_yield(k)

    def locked(self):
        return self.held

    def __enter__(self):
        self.acquire()
        return self

    def __exit__(self, *a):
        self.release()


class SimQueue(object):
    """queue.Queue look-alike (unbounded)."""
    _n = 0

    def __init__(self, maxsize=0):
        SimQueue._n += 1
        self.name = "queue%d" % SimQueue._n
        self.items = []
        self.waiters = []

    def describe(self):
        return "%s len=%d waiters=%s" % (self.name, len(self.items), [w.name for w in self.waiters])

    def put(self, item, block=True, timeout=None):
        k = _K()
        k.yield_()
        self.items.append(item)
        for w in self.waiters:
            k.wake(w)
        self.waiters = []
        _soft_yield(k)

    put_nowait = put

    def push(self, item):
        """Non-yielding put (for timers and for tasks that must not be descheduled here)."""
        k = _K()
        self.items.append(item)
        for w in self.waiters:
            k.wake(w)
        self.waiters = []

    def get(self, block=True, timeout=None):
        k = _K()
        k.yield_()
        deadline = None
        if timeout is not None:
            deadline = k.now + int(timeout * 1e6)
        while not self.items:
            if not block:
                raise _realqueue.Empty()
            me = k.cur
            self.waiters.append(me)
            ok = k.wait(self, deadline)
            if me in self.waiters:
                self.waiters.remove(me)
            if not ok and not self.items:
                raise _realqueue.Empty()
        return self.items.pop(0)

    def get_nowait(self):
        return self.get(False)

    def qsize(self):
        return len(self.items)

    def empty(self):
        return not self.items


class QueueShim(object):
    """Stands in for the `Queue`/`queue` module at import seams."""
    Queue = SimQueue
    Empty = _realqueue.Empty
    Full = _realqueue.Full


import time as _realtime


class _TimeShim(object):
    """Stands in for the `time` module at import seams (virtual time/sleep, the rest passes through)."""

    def __getattr__(self, name):
        return getattr(_realtime, name)

    @staticmethod
    def time():
        k = _k.K
        return EPOCH0 + (k.now / 1e6 if k is not None else 0.0)

    @staticmethod
    def sleep(d):
        _K().sleep(d)

    @staticmethod
    def monotonic():
        k = _k.K
        return k.now / 1e6 if k is not None else 0.0


TimeShim = _TimeShim()


class SimRLock(object):
    def __init__(self):
        self._l = SimLock()
        self._owner = None
        self._count = 0

    def acquire(self, blocking=True, timeout=-1):
        me = _K().cur
        if self._owner is me and me is not None:
            self._count += 1
            return True
        ok = self._l.acquire(blocking, timeout)
        if ok:
            self._owner = me
            self._count = 1
        return ok

    def release(self):
        self._count -= 1
        if self._count == 0:
            self._owner = None
            self._l.release()

    def locked(self):
        return self._l.held

    def __enter__(self):
        self.acquire()
        return self

    def __exit__(self, *a):
        self.release()


class SimEvent(object):
    def __init__(self):
        self._flag = False
        self._waiters = []

    def is_set(self):
        return self._flag

    isSet = is_set

    def set(self):
        k = _K()
        self._flag = True
        for w in self._waiters:
            k.wake(w)
        self._waiters = []
        _soft_yield(k)

    def clear(self):
        self._flag = False

    def wait(self, timeout=None):
        k = _K()
        k.yield_()
        deadline = None if timeout is None else k.now + int(timeout * 1e6)
        while not self._flag:
            self._waiters.append(k.cur)
            if not k.wait(self, deadline) and not self._flag:
                return False
        return True


class _ThreadingShim(object):
    """Stands in for the `threading` module (Lock/RLock/Event/Thread simulated, the rest passes through)."""
    Lock = SimLock
    RLock = SimRLock
    Event = SimEvent
    Thread = _realthreading.Thread

    def __getattr__(self, name):
        return getattr(_realthreading, name)


ThreadingShim = _ThreadingShim()


_orig_start = _realthreading.Thread.start
_orig_join = _realthreading.Thread.join
_orig_is_alive = _realthreading.Thread.is_alive


def _sim_start(self):
    k = _k.K
    if k is None:
        return _orig_start(self)
    me = k.cur
    proc = me.proc if me is not None else None
    self._sim_task = k.spawn(self.run, self.__class__.__name__, daemon=bool(self.daemon), proc=proc)
    if me is not None:
        k.yield_()


def _sim_join(self, timeout=None):
    t = getattr(self, "_sim_task", None)
    if t is None:
        return _orig_join(self, timeout)
    k = _K()
    deadline = None if timeout is None else k.now + int(timeout * 1e6)
    while t.state != _k.D:
        if deadline is not None and k.now >= deadline:
            return
        k.sleep(0.001)


def _sim_is_alive(self):
    t = getattr(self, "_sim_task", None)
    if t is None:
        return _orig_is_alive(self)
    return t.state != _k.D


def patch_threads():
    _realthreading.Thread.start = _sim_start
    _realthreading.Thread.join = _sim_join
    _realthreading.Thread.is_alive = _sim_is_alive


class LockLeak(Exception):
    """A lock that nobody can ever release again (single-threaded worlds)."""


class LeakLock(object):
    """threading.Lock look-alike for single-threaded event worlds: acquiring a held lock would block
    forever there, so it raises instead and the world reports the wedge."""

    def __init__(self):
        self.held = False

    def acquire(self, blocking=True, timeout=-1):
        if self.held:
            if not blocking:
                return False
            raise LockLeak("lock is still held from an earlier call that did not release it")
        self.held = True
        return True

    def release(self):
        if not self.held:
            raise RuntimeError("release unlocked lock")
        self.held = False

    def locked(self):
        return self.held

    def __enter__(self):
        self.acquire()
        return self

    def __exit__(self, *a):
        self.release()


class _LeakThreadingShim(object):
    Lock = LeakLock
    RLock = LeakLock
    Thread = _realthreading.Thread

    def __getattr__(self, name):
        return getattr(_realthreading, name)


LeakThreadingShim = _LeakThreadingShim()
