"""Deterministic scheduler for synchronous, blocking, multi-threaded code.

Each simulated thread is a real OS thread, but exactly one of them holds the *baton*; all others
are parked on a private lock.  Only `Kernel._pick` decides who runs next, and every decision is
drawn from a PRNG substream (or taken from an explicit decision list on replay).  Time is virtual:
when nothing is runnable the clock jumps to the earliest deadline.

Yield points are (a) operations on simulated primitives (sim/sync.py, sim/net.py, ...) and
(b) optional pre-emption points delivered by sys.monitoring (PEP 669) for selected code objects.
"""
import _thread
import hashlib
import heapq
import sys
import traceback

from .rng import stream

R, W, D = "R", "W", "D"

K = None  # the kernel of the run in progress (one per process at a time)


class SimShutdown(SystemExit):
    """Raised inside every surviving task at teardown.  SystemExit subclass so that
    `except Exception`/asyncore's blanket handler do not swallow it."""


class SimCrash(SystemExit):
    """Simulated process death."""


class Task(object):
    __slots__ = ("tid", "name", "sem", "state", "wake_at", "wait", "woken", "daemon", "proc",
                 "kill", "exc", "ident", "prio", "started", "holds")

    def __init__(self, tid, name, daemon, proc):
        self.tid = tid
        self.name = name
        self.sem = _thread.allocate_lock()
        self.sem.acquire()
        self.state = R
        self.wake_at = None
        self.wait = None
        self.woken = False
        self.daemon = daemon
        self.proc = proc
        self.kill = None
        self.exc = None
        self.ident = None
        self.prio = 0.0
        self.started = False
        self.holds = 0

    def __repr__(self):
        return "<Task %d %s %s>" % (self.tid, self.name, self.state)


class Kernel(object):
    def __init__(self, seed, policy="random", sticky=0.0, preempt_p=0.0, max_steps=400000,
                 max_time=None, decisions=None, pct_depth=2, pct_len=3000, step_us=0):
        self.seed = seed
        self.rng = stream(seed, "sched")
        self.prng = stream(seed, "preempt")
        self.policy = policy
        self.sticky = sticky
        self.preempt_p = preempt_p
        self.max_steps = max_steps
        self.max_time = max_time
        self.decisions = list(decisions) if decisions is not None else None
        self.dpos = 0
        self.tasks = []
        self.cur = None
        self.cur_ident = None
        self.now = 0  # integer microseconds of virtual time
        self.steps = 0
        self.switches = 0
        self.preempts = 0
        self.h = hashlib.sha256()
        self.trace = []  # scheduling decisions (chosen tid at every real choice)
        self.notes = []  # bounded human-readable event log
        self.max_notes = 400
        self.main = _thread.allocate_lock()
        self.main.acquire()
        self.stopping = False
        self.finished = False
        self.status = None
        self.timers = []
        self.tseq = 0
        self.errors = []  # uncaught exceptions in tasks: (task name, exception, traceback text)
        self.on_switch = None  # callback(task or None) just before the baton moves (process-global swapping)
        if policy == "pct":
            self.pct_points = sorted(self.rng.randrange(1, pct_len) for _ in range(pct_depth))
        else:
            self.pct_points = []
        self.pct_low = 0.0
        self._preempting = False
        # virtual cost of one scheduling step (0 = computing takes no time): with a cost > 0 timers expire and sleepers wake
        # while another task is in the middle of its work, not only when everybody is idle
        self.step_us = int(step_us)

    # ------------------------------------------------------------------ time
    def time(self):
        return self.now / 1e6

    def call_at(self, at_us, fn):
        """Run fn (non-blocking!) in scheduler context once virtual time reaches at_us."""
        self.tseq += 1
        heapq.heappush(self.timers, (int(at_us), self.tseq, fn))

    def call_later(self, delay_s, fn):
        self.call_at(self.now + int(delay_s * 1e6), fn)

    # ------------------------------------------------------------------ log
    def note(self, *parts):
        s = " ".join(str(p) for p in parts)
        self.h.update(s.encode("utf-8", "replace"))
        self.h.update(b"\n")
        if len(self.notes) < self.max_notes:
            self.notes.append("%d.%06d %s" % (self.now // 1000000, self.now % 1000000, s))

    def digest(self):
        return self.h.hexdigest()[:16]

    # ------------------------------------------------------------------ tasks
    def spawn(self, fn, name, daemon=False, proc=None):
        t = Task(len(self.tasks), name, daemon, proc)
        if self.policy in ("pct", "demote"):
            t.prio = 1.0 + self.rng.random()
        self.tasks.append(t)

        def boot():
            t.sem.acquire()
            t.ident = _thread.get_ident()
            self.cur_ident = t.ident
            t.started = True
            try:
                if t.kill is None:
                    fn()
            except (SimShutdown, SimCrash):
                pass
            except BaseException as e:  # noqa
                t.exc = e
                self.errors.append((t.name, e, traceback.format_exc()))
                self.note("task-exception", t.name, type(e).__name__)
            t.state = D
            self._dispatch(None)

        _thread.start_new_thread(boot, ())
        return t

    def current(self):
        return self.cur

    # ------------------------------------------------------------------ scheduling
    def _fire_timers(self):
        fired = False
        while self.timers and self.timers[0][0] <= self.now:
            _, _, fn = heapq.heappop(self.timers)
            fn()
            fired = True
        return fired

    def _runnable(self):
        return [t for t in self.tasks if t.state == R]

    def _pick(self):
        if self.finished:
            self.status = "finished"
            return None
        if self.steps >= self.max_steps:
            self.status = "steplimit"
            return None
        if self.step_us:
            self.now += self.step_us
            for t in self.tasks:
                if t.state == W and t.wake_at is not None and t.wake_at <= self.now:
                    t.state = R
                    t.woken = False
                    t.wake_at = None
        self._fire_timers()
        r = self._runnable()
        while not r:
            nxt = None
            for t in self.tasks:
                if t.state == W and t.wake_at is not None and (nxt is None or t.wake_at < nxt):
                    nxt = t.wake_at
            if self.timers and (nxt is None or self.timers[0][0] < nxt):
                nxt = self.timers[0][0]
            if nxt is None:
                self.status = "quiescent"
                return None
            if self.max_time is not None and nxt > self.max_time:
                self.status = "timelimit"
                return None
            if nxt > self.now:
                self.now = nxt
            self._fire_timers()
            for t in self.tasks:
                if t.state == W and t.wake_at is not None and t.wake_at <= self.now:
                    t.state = R
                    t.woken = False
                    t.wake_at = None
            r = self._runnable()
            if self.finished:
                self.status = "finished"
                return None
        if len(r) == 1:
            return r[0]
        return self._choose(r)

    def _choose(self, r):
        cur = self.cur
        chosen = None
        if self.decisions is not None:
            if self.dpos < len(self.decisions):
                want = self.decisions[self.dpos]
                self.dpos += 1
                for t in r:
                    if t.tid == want:
                        chosen = t
                        break
            if chosen is None:
                chosen = cur if (cur is not None and cur.state == R) else r[0]
        elif self.policy == "lowest":
            chosen = cur if (cur is not None and cur.state == R) else r[0]
        elif self.policy == "pct":
            while self.pct_points and self.steps >= self.pct_points[0]:
                self.pct_points.pop(0)
                if cur is not None:
                    self.pct_low -= 1.0
                    cur.prio = self.pct_low
            chosen = max(r, key=lambda t: (t.prio, -t.tid))
        elif self.policy == "demote":
            # priorities like PCT, but the change points are the pre-emptions themselves: a pre-empted task drops below
            # everybody else and the others run until they block ("descheduled for a long time at an arbitrary point")
            if self._preempting and cur is not None:
                self.pct_low -= 1.0
                cur.prio = self.pct_low
            chosen = max(r, key=lambda t: (t.prio, -t.tid))
        else:
            if self.sticky and cur is not None and cur.state == R and self.rng.random() < self.sticky:
                chosen = cur
            else:
                chosen = r[self.rng.randrange(len(r))]
        self.trace.append(chosen.tid)
        self.h.update(b"%d>%d;" % (self.steps, chosen.tid))
        return chosen

    def _dispatch(self, me):
        """Hand the baton on.  `me` is the calling task (None for the main thread or a dying task)."""
        if self.stopping:
            return self._dispatch_stopping(me)
        self.steps += 1
        nxt = self._pick()
        if nxt is None:
            self.cur = None
            self.cur_ident = None
            if self.on_switch is not None:
                self.on_switch(None)
            self.main.release()
            if me is not None and me.state != D:
                me.sem.acquire()
                self.cur_ident = me.ident
                self._resume_check(me)
            return
        if nxt is me:
            return
        self.switches += 1
        self.cur = nxt
        self.cur_ident = nxt.ident
        if self.on_switch is not None:
            self.on_switch(nxt)
        nxt.sem.release()
        if me is not None and me.state != D:
            me.sem.acquire()
            self.cur_ident = me.ident
            self._resume_check(me)

    def _dispatch_stopping(self, me):
        nxt = None
        for t in self.tasks:
            if t.state != D and t is not me:
                nxt = t
                break
        if nxt is None:
            if me is not None and me.state != D:
                return  # last one standing: keep unwinding
            self.cur = None
            self.cur_ident = None
            self.main.release()
            return
        if me is not None and me.state != D:
            # a dying task hit another yield point: let it continue unwinding first
            return
        nxt.state = R
        self.cur = nxt
        self.cur_ident = nxt.ident
        if self.on_switch is not None:
            self.on_switch(nxt)
        nxt.sem.release()

    def _resume_check(self, me):
        if me.kill is not None:
            raise me.kill("killed")

    # ------------------------------------------------------------------ API for primitives
    def _me(self):
        me = self.cur
        if me is None or me.ident != _thread.get_ident():
            raise RuntimeError("simulated primitive used outside a simulated task")
        return me

    def yield_(self, tag=None):
        """A sync point: the scheduler may switch to another runnable task."""
        me = self._me()
        if me.kill is not None:
            raise me.kill("killed")
        self._dispatch(me)

    def wait(self, obj, deadline=None):
        """Block the current task until wake()d (returns True) or the deadline (returns False)."""
        me = self._me()
        if me.kill is not None:
            raise me.kill("killed")
        me.state = W
        me.wait = obj
        me.wake_at = deadline
        me.woken = False
        self._dispatch(me)
        me.wait = None
        return me.woken

    def wake(self, t):
        if t.state == W:
            t.state = R
            t.woken = True
            t.wake_at = None

    def sleep(self, seconds):
        self.wait("sleep", self.now + max(0, int(seconds * 1e6)))

    def preempt_point(self):
        if self.stopping or self.preempt_p <= 0.0:
            return
        me = self.cur
        if me is None or me.ident != _thread.get_ident() or me.kill is not None:
            return
        if self.prng.random() < self.preempt_p:
            self.preempts += 1
            self._preempting = True
            try:
                self._dispatch(me)
            finally:
                self._preempting = False

    def kill_task(self, t, exc=SimCrash):
        if t.state == D:
            return
        t.kill = exc
        if t.state == W:
            t.state = R
            t.woken = False
            t.wake_at = None

    def finish(self):
        """Called by a driver task: the run is over; control returns to the main thread."""
        self.finished = True

    # ------------------------------------------------------------------ main-thread API
    def run(self):
        """Run until finished / quiescent / a limit; returns the status string."""
        self.status = None
        self._dispatch(None)
        self.main.acquire()
        return self.status

    def blocked_report(self):
        out = []
        for t in self.tasks:
            if t.state == W:
                w = t.wait
                desc = getattr(w, "describe", None)
                out.append({"task": t.name, "daemon": t.daemon,
                            "on": desc() if desc else (w if isinstance(w, str) else type(w).__name__),
                            "deadline": t.wake_at})
        return out

    def shutdown(self):
        """Unwind every surviving task; afterwards no simulated thread is alive."""
        self.stopping = True
        for t in self.tasks:
            if t.state != D:
                t.kill = SimShutdown
        while any(t.state != D for t in self.tasks):
            self._dispatch_stopping(None)
            self.main.acquire()
        global K
        if K is self:
            K = None


def install(kernel):
    global K
    K = kernel
    return kernel


# ---------------------------------------------------------------------- pre-emption via PEP 669
_TOOL = 4
_mode = "none"
_codes = []


EXCLUDE_MODULES = ("yowsup.layers.coder.encoder", "yowsup.layers.coder.decoder",
                   "yowsup.layers.coder.tokendictionary")  # stateless byte loops: pre-empting them only costs time


def _collect_codes(prefixes):
    seen = set()
    out = []

    def add_code(co):
        if co in seen:
            return
        seen.add(co)
        out.append(co)
        for c in co.co_consts:
            if hasattr(c, "co_code"):
                add_code(c)

    def walk(obj, depth=0):
        code = getattr(obj, "__code__", None)
        if code is not None and hasattr(code, "co_code"):
            add_code(code)
            return
        if isinstance(obj, (staticmethod, classmethod)):
            walk(obj.__func__, depth + 1)
        elif isinstance(obj, property):
            for f in (obj.fget, obj.fset, obj.fdel):
                if f is not None:
                    walk(f, depth + 1)
        elif isinstance(obj, type) and depth < 3:
            for v in list(vars(obj).values()):
                walk(v, depth + 1)

    for name, mod in list(sys.modules.items()):
        if mod is None or not any(name == p or name.startswith(p + ".") for p in prefixes):
            continue
        if name in EXCLUDE_MODULES:
            continue
        modname = getattr(mod, "__name__", None)
        for v in list(vars(mod).values()):
            if getattr(v, "__module__", None) == modname:
                walk(v)
    return out


def setup_preemption(prefixes):
    """Collect the code objects that may be pre-empted (call once per process, after imports)."""
    global _codes
    _codes = _collect_codes(prefixes)
    mon = sys.monitoring
    if mon.get_tool(_TOOL) is None:
        mon.use_tool_id(_TOOL, "yowsup-sim")

    def on_line(code, line):
        k = K
        if k is not None:
            k.preempt_point()

    def on_start(code, off):
        k = K
        if k is not None:
            k.preempt_point()

    mon.register_callback(_TOOL, mon.events.LINE, on_line)
    mon.register_callback(_TOOL, mon.events.PY_START, on_start)
    return len(_codes)


def set_preempt_mode(mode):
    """mode in {'none', 'call', 'line'}; cheap when unchanged."""
    global _mode
    if mode == _mode:
        return
    mon = sys.monitoring
    ev = {"none": 0, "call": mon.events.PY_START, "line": mon.events.LINE | mon.events.PY_START}[mode]
    for co in _codes:
        mon.set_local_events(_TOOL, co, ev)
    _mode = mode
